"""C07 — WSDL/XSD well-formed, closed, deterministic (claimed in part).

Decided here: the determinism clause (same application, built in fresh processes
under different hash seeds and heap layouts, and repeatedly in one process, gives
byte-identical documents) and, as invariants on every document those runs
produce, well-formedness, QName closure and operation completeness.  NOT decided
here: the foreign-client clause (a pure program-by-input differential).

Environment faults / nondeterminism controlled: PYTHONHASHSEED (iteration order
of sets of namespace strings), heap layout (iteration order of sets of classes:
N dummy classes allocated before the application is built), build repetition
(second Application over the same classes; ?wsdl through WsgiApplication versus
direct build) -- each in a child interpreter (DESIGN.md section 4, C07)."""

import hashlib
import json
import os
import subprocess
import sys

from sim import bootstrap
bootstrap()

from sim.rng import Streams, derive
from sim.runner import digest, VERIF
from sim.proc import run_child

ID = 'C07'
LEVEL = 'exploration'
BUDGET = {'quick': 400, 'thorough': 3000}
BLOCK = 1
BLOCK_TIMEOUT = 1200
RULE = ('one evaluation = one generated application (1..3 services, 1..4 '
        'methods each, custom operation / message / variable names, bare and '
        'wrapped body styles, in/out headers, declared faults, port types, '
        'types over 1..4 namespaces with inheritance, arrays and customised '
        'primitives sharing one repr) built in E child interpreters, each with '
        'its own PYTHONHASHSEED and heap padding, twice per interpreter '
        '(direct Wsdl11 build and lazy ?wsdl). Non-trivial = the application '
        'has at least two namespaces or two repr-tied customised types; '
        'distinct = distinct structural summaries (counts of services, '
        'methods, namespaces, types, headers, faults, body styles).')
COMPONENTS = {
    'real': ['spyne.interface (Interface, class registry, prefix table)',
             'spyne.interface.wsdl.wsdl11.Wsdl11', 'spyne.interface.xml_schema',
             'spyne.util.toposort', 'spyne.decorator / descriptor',
             'spyne.server.wsgi.WsgiApplication (?wsdl path)'],
    'stub': ['the process environment: PYTHONHASHSEED and heap layout of each '
             'child interpreter (seeded)', 'generated services (never called)',
             'reference resolver for QName closure (this file)'],
}
ASSUMPTIONS = [
    'the foreign-client clause of C07 (zeep generating requests / decoding '
    'replies) is not decided by this check',
    'applications that spyne rejects at construction are skipped identically '
    'in every environment',
    'rebuilding on the SAME Wsdl11 object is documented as unsupported and is '
    'not asserted',
]

XS = 'http://www.w3.org/2001/XMLSchema'
WSDL = 'http://schemas.xmlsoap.org/wsdl/'
SOAP11B = 'http://schemas.xmlsoap.org/wsdl/soap/'


def gen_cases(tier, verif_seed):
    n_batches = {'quick': 160, 'thorough': 3000}[tier]
    per = {'quick': 12, 'thorough': 20}[tier]
    E = {'quick': 4, 'thorough': 8}[tier]
    for b in range(n_batches):
        seed = derive(ID, verif_seed, b) & 0xffffffffffff
        r = Streams(seed)['env']
        yield {
            'seed': seed,
            'app_seeds': [derive(seed, 'app', k) & 0xffffffff
                                                       for k in range(per)],
            'envs': [[r.randint(1, 2 ** 31), r.choice((0, 0, 17, 400, 1000,
                                               5000))] for _ in range(E)],
        }


# ---------------------------------------------------------------------------
# application generator (runs inside the child interpreters too)


def build_app(seed):
    """-> (wsgi application, summary dict) or raises ConstructionRejected."""
    import random
    from spyne import Application, Service, rpc, Fault, Mandatory
    from spyne.model.complex import ComplexModel, Array
    from spyne.model.primitive import (Integer, Unicode, Boolean, Decimal,
                                       Date, DateTime, Double)
    from spyne.protocol.soap import Soap11
    from spyne.server.wsgi import WsgiApplication

    r = random.Random(seed)
    tns = r.choice(('urn:c07:tns', 'http://c07/app', 'tns'))
    nss = [tns] + r.sample(['urn:c07:a', 'urn:c07:b', 'http://c07/c',
                            'urn:c07:d'], r.randint(0, 3))
    prims = [Integer, Unicode, Boolean, Decimal, Date, DateTime, Double]

    def prim():
        k = r.random()
        if k < .2:
            return Unicode(max_len=r.randint(1, 40))
        if k < .35:
            return Unicode(pattern=r.choice((u'[a-z]+', u'\\d{3}', u'x*')))
        if k < .5:
            return Integer(ge=r.randint(0, 5), le=r.randint(6, 99))
        if k < .6:
            return Unicode(min_len=1, max_len=r.randint(2, 9))
        if k < .68:
            # `values` is documented as a set: its iteration order is not the
            # document's business
            vs = r.sample(['red', 'green', 'blue', 'cyan', 'magenta',
                           'yellow', 'black'], r.randint(2, 5))
            return Unicode(values=set(vs) if r.random() < .6 else vs)
        return r.choice(prims)

    types = []
    for i in range(r.randint(1, 6)):
        fields = []
        for j in range(r.randint(1, 5)):
            k = r.random()
            if types and k < .25:
                ft = r.choice(types)
            elif types and k < .35:
                ft = Array(r.choice(types))
            elif k < .45:
                ft = Array(r.choice(prims))
            else:
                ft = prim()
            fields.append(('f%d_%d' % (i, j), ft))
        base = ComplexModel
        if types and r.random() < .3:
            base = r.choice(types)
        cls = type('T%d' % i, (base,), {'__namespace__': r.choice(nss),
                                        '_type_info': fields})
        types.append(cls)

    # classes that refer to each other (a late field pointing back)
    if len(types) > 1 and r.random() < .2:
        for k in range(r.randint(1, 2)):
            a, b = r.sample(types, 2)
            if r.random() < .5:
                a.append_field('back%d' % k, b)
            else:
                a.append_field('backs%d' % k, Array(b))

    faults = []
    for i in range(r.randint(0, 3)):
        fbase = Fault
        if faults and r.random() < .4:
            fbase = r.choice(faults)       # fault inheritance
        fns = {'__namespace__': r.choice(nss)}
        if types and r.random() < .4:
            # a fault carrying a member of a type from some other namespace
            fns['_type_info'] = [('info%d' % i, r.choice(types))]
        faults.append(type('Err%d' % i, (fbase,), fns))
    headers = []
    for i in range(r.randint(0, 3)):
        # now and then two header classes share ONE name in two namespaces
        hname = 'Hdr0' if (i and r.random() < .3) else 'Hdr%d' % i
        hns = r.choice(nss)
        if any(h.__name__ == hname and h.__namespace__ == hns
                                                        for h in headers):
            hname = 'Hdr%d' % i
        headers.append(type(hname, (ComplexModel,), {
            '__namespace__': hns,
            '_type_info': [('token', Unicode), ('seq', Integer)]}))

    summary = {'services': 0, 'methods': 0, 'namespaces': len(nss),
               'types': len(types), 'faults': len(faults),
               'headers': len(headers), 'bare': 0, 'custom_names': 0,
               'port_types': 0, 'throws': 0, 'methods_list': [],
               'bare_ns_msg': 0}
    services = []
    used_names = set()
    for si in range(r.randint(1, 3)):
        ns = {}
        use_ports = r.random() < .25
        ports = ['Port%dA' % si, 'Port%dB' % si] if use_ports else None
        if use_ports and r.random() < .4:
            ports[1] = 'PortShared'     # several services, one port type
        sbase = Service
        if services and r.random() < .2:
            # service inheritance: methods and __port_types__ are inherited
            sbase = services[-1]
            inherited = getattr(sbase, '__port_types__', None)
            if inherited and not use_ports:
                # (spyne insists on a _port_type for every method then)
                use_ports = 'inherited'
                ports = list(inherited)
        if use_ports is True:
            ns['__port_types__'] = tuple(ports)
            summary['port_types'] += 2
        if r.random() < .15:
            # (inherited by sub-services, which then share the wsdl:service)
            ns['__service_name__'] = 'Named%d' % si
        if headers and r.random() < .5:
            ns['__in_header__'] = r.choice(headers)
        if headers and r.random() < .4:
            ns['__out_header__'] = r.choice(headers)
        # two or more headers are carried by one combined message
        if len(headers) > 1 and r.random() < .4:
            ns['__in_header__'] = tuple(r.sample(headers, 2))
        if len(headers) > 1 and r.random() < .3:
            ns['__out_header__'] = tuple(r.sample(headers, 2))
        for mi in range(r.randint(1, 4)):
            name = 'm%d_%d' % (si, mi)
            kw = {}
            style = r.random()
            if style < .2 and types:
                args = [r.choice(types)]
                kw['_body_style'] = 'bare'
                summary['bare'] += 1
                if r.random() < .12 and len(nss) > 1:
                    # a bare message named into a namespace of its own choice
                    kw['_in_message_name'] = '{%s}In%s' % (nss[1], name)
                    summary['bare_ns_msg'] += 1
            else:
                args = []
                for _ in range(r.randint(0, 3)):
                    if types and r.random() < .4:
                        t = r.choice(types)
                        k = r.random()
                        if k < .25:
                            # an anonymous variant of a registered class
                            t = t.customize(min_occurs=1)
                        elif k < .4:
                            t = t.customize(nillable=False)
                        elif k < .5:
                            # a renamed variant (MandatoryT)
                            t = Mandatory(t)
                        args.append(t)
                    else:
                        args.append(prim())
            ret = r.choice(types + [Unicode, Integer, None,
                                    Array(Unicode)] + types)
            if ret is not None:
                kw['_returns'] = ret
            if r.random() < .25:
                kw['_operation_name'] = 'Op%s' % name
                summary['custom_names'] += 1
            if r.random() < .2 and '_body_style' not in kw and \
                                            '_operation_name' not in kw:
                kw['_in_message_name'] = 'In%s' % name
                if r.random() < .3 and len(nss) > 1:
                    kw['_in_message_name'] = '{%s}In%s' % (nss[1], name)
                summary['custom_names'] += 1
            if r.random() < .2 and ret is not None and \
                                                  '_body_style' not in kw:
                kw['_out_variable_name'] = 'result_%s' % name
                summary['custom_names'] += 1
            if faults and r.random() < .4:
                kw['_throws'] = r.sample(faults, r.randint(1, len(faults)))
                summary['throws'] += len(kw['_throws'])
            if use_ports:
                kw['_port_type'] = r.choice(ports)
            argnames = ['a%d' % k for k in range(len(args))]
            src = 'def %s(ctx%s):\n    return None\n' % (
                name, ''.join(', ' + a for a in argnames))
            d = {}
            exec(src, d)
            ns[name] = rpc(*args, **kw)(d[name])
            summary['methods'] += 1
            summary['methods_list'].append(kw.get('_operation_name', name))
        services.append(type('Svc%d' % si, (sbase,), ns))
        summary['services'] += 1
    if r.random() < .12:
        # a class that is only ever reached through a renamed variant of it,
        # with a subclass nobody mentions
        zns = r.choice(nss)
        Lone = type('Lone', (ComplexModel,), {'__namespace__': zns,
                                              '_type_info': [('n', Unicode)]})
        LoneSub = type('LoneSub', (Lone,), {'__namespace__': zns,
                                            '_type_info': [('m', Integer)]})
        d = {}
        exec('def lone(ctx, a0):\n    return None\n', d)
        lone_kw = {}
        if getattr(services[-1], '__port_types__', None):
            lone_kw['_port_type'] = services[-1].__port_types__[0]
        services.append(type('SvcLone', (services[-1],), {
            'lone': rpc(Mandatory(Lone), **lone_kw)(d['lone'])}))
        summary['services'] += 1
        summary['methods'] += 1
        summary['methods_list'].append('lone')
        del LoneSub
    app = Application(services, tns, name='C07App', in_protocol=Soap11(),
                      out_protocol=Soap11())
    return app, services, summary


def wsdl_variants(seed):
    """Build the application and return the WSDL bytes obtained (a) lazily
    through ?wsdl, (b) by a direct build on a second Application over the same
    classes."""
    from spyne import Application
    from spyne.protocol.soap import Soap11
    from spyne.server.wsgi import WsgiApplication
    from sim.gateway import call_wsgi
    from sim.universe import wsdl_request
    app, services, summary = build_app(seed)
    # from here on the application has been accepted
    try:
        w = WsgiApplication(app)
        o = call_wsgi(w, wsdl_request())
        lazy = o.body if o.exc is None else ('EXC:%r' % o.exc).encode()
        # the second application validates its input against the schema in
        # half of the cases: the validation schema is built on the very
        # Wsdl11 / XmlSchema objects the document comes from, and what is
        # published does not depend on it
        app2 = Application(services, app.tns, name='C07App',
                           in_protocol=Soap11(validator='lxml')
                                           if seed % 2 else Soap11(),
                           out_protocol=Soap11())
        w2 = WsgiApplication(app2)
        w2.doc.wsdl11.build_interface_document('http://sim.invalid/')
        direct = w2.doc.wsdl11.get_interface_document()
    except Exception as e:
        raise BuildFailed(e, summary)
    if not (o.status or '').startswith('200'):
        raise BuildFailed(RuntimeError('?wsdl answered %s' % o.status),
                          summary)
    return lazy, direct, summary


class BuildFailed(Exception):
    def __init__(self, exc, summary):
        Exception.__init__(self, '%s: %s' % (type(exc).__name__, exc))
        self.exc, self.summary = exc, summary


def child_main(app_seeds, pad):
    """Entry point of the child interpreters."""
    padding = [type('Pad%d' % i, (object,), {'x': i}) for i in range(pad)]
    more = [object() for _ in range(pad * 3)]
    out = {}
    for s in app_seeds:
        try:
            lazy, direct, summary = wsdl_variants(s)
            out[str(s)] = [hashlib.sha256(lazy).hexdigest(),
                           hashlib.sha256(direct).hexdigest()]
        except BuildFailed as e:
            out[str(s)] = ['BUILD-FAILED', type(e.exc).__name__]
        except Exception as e:
            out[str(s)] = ['REJECTED', type(e).__name__]
    json.dump(out, sys.stdout)
    del padding, more


# ---------------------------------------------------------------------------
# invariants on a document


def _resolve(el, qname):
    if ':' in qname:
        pfx, local = qname.split(':', 1)
    else:
        pfx, local = None, qname
    ns = el.nsmap.get(pfx)
    return ns, local, pfx


def check_document(data, summary):
    """-> list of (sig, what)."""
    from lxml import etree
    V = []
    try:
        root = etree.fromstring(data)
    except Exception as e:
        return [('malformed', 'WSDL is not well-formed: %s' % (e,))]
    q = lambda ns, n: '{%s}%s' % (ns, n)
    tns = root.get('targetNamespace')
    # definitions
    types_by_ns, elements_by_ns = {}, {}
    for imp in root.iter(q(XS, 'import')):
        # the schemas travel inside the document: an import that sends the
        # reader to a file is a reference to something that is not there
        if imp.get('schemaLocation') is not None:
            V.append(('closure|import|schemaLocation', 'xs:import of %r '
                      'points at %r, which is not part of the document' % (
                          imp.get('namespace'), imp.get('schemaLocation'))))
            break
    for schema in root.iter(q(XS, 'schema')):
        sns = schema.get('targetNamespace')
        for ct in schema:
            if not isinstance(ct.tag, str):
                continue
            if ct.tag in (q(XS, 'complexType'), q(XS, 'simpleType')):
                types_by_ns.setdefault(sns, set()).add(ct.get('name'))
            elif ct.tag == q(XS, 'element'):
                elements_by_ns.setdefault(sns, set()).add(ct.get('name'))
    messages = set(m.get('name') for m in root.findall(q(WSDL, 'message')))
    bindings = set(b.get('name') for b in root.findall(q(WSDL, 'binding')))
    port_types = set(p.get('name') for p in root.findall(q(WSDL, 'portType')))

    def closed(el, attr, kind):
        val = el.get(attr)
        if val is None:
            return
        ns, local, pfx = _resolve(el, val)
        where = '%s/@%s' % (etree.QName(el).localname, attr)
        if ns is None:
            V.append(('closure|unbound-prefix|%s' % where, '%s="%s": prefix '
                      'not declared' % (where, val)))
            return
        if kind == 'type':
            ok = ns == XS or local in types_by_ns.get(ns, ())
        elif kind == 'element':
            ok = local in elements_by_ns.get(ns, ())
        elif kind == 'message':
            ok = ns == tns and local in messages
        elif kind == 'binding':
            ok = ns == tns and local in bindings
        elif kind == 'portType':
            ok = ns == tns and local in port_types
        else:
            ok = True
        if not ok:
            V.append(('closure|%s|%s' % (kind, where), '%s="%s" resolves to '
                      '{%s}%s which is not defined in the document' % (
                          where, val, ns, local)))

    for el in root.iter():
        if not isinstance(el.tag, str):
            continue
        tag = etree.QName(el)
        if tag.namespace == XS:
            closed(el, 'type', 'type')
            closed(el, 'base', 'type')
            closed(el, 'ref', 'element')
            closed(el, 'itemType', 'type')
        elif tag.namespace == WSDL:
            if tag.localname == 'part':
                closed(el, 'element', 'element')
                closed(el, 'type', 'type')
            elif tag.localname in ('input', 'output', 'fault') and \
                    etree.QName(el.getparent()).localname == 'operation' and \
                    etree.QName(el.getparent().getparent()).localname == \
                                                              'portType':
                closed(el, 'message', 'message')
            elif tag.localname == 'binding':
                closed(el, 'type', 'portType')
            elif tag.localname == 'port':
                closed(el, 'binding', 'binding')
        elif tag.namespace == SOAP11B and tag.localname in ('header',
                                                      'headerfault'):
            closed(el, 'message', 'message')
    # names are unique per kind
    for kind in ('message', 'portType', 'binding', 'service'):
        names = [e.get('name') for e in root.findall(q(WSDL, kind))]
        dup = sorted(set(n for n in names if names.count(n) > 1))
        if dup:
            V.append(('duplicate|%s' % kind, 'wsdl:%s name(s) %r defined more '
                      'than once' % (kind, dup)))
    # ... ports per service, operations per portType and per binding
    for kind, sub in (('service', 'port'), ('portType', 'operation'),
                      ('binding', 'operation')):
        for el in root.findall(q(WSDL, kind)):
            names = [e.get('name') for e in el.findall(q(WSDL, sub))]
            dup = sorted(set(n for n in names if names.count(n) > 1))
            if dup:
                V.append(('duplicate|%s/%s' % (kind, sub), 'wsdl:%s %r has '
                          'wsdl:%s name(s) %r more than once' % (kind,
                          el.get('name'), sub, dup)))
                break
    for msg in root.findall(q(WSDL, 'message')):
        pn = [p_.get('name') for p_ in msg.findall(q(WSDL, 'part'))]
        if len(pn) != len(set(pn)):
            kind = 'same-named-headers' if (msg.get('name') or '').endswith(
                                                  'HeaderMsg') else 'other'
            V.append(('duplicate|part|%s' % kind, 'message %s has duplicate '
                      'part names %r' % (msg.get('name'), pn)))
    # every operation of a binding exists in the portType the binding implements
    pts = dict((p_.get('name'), set(o.get('name') for o in
               p_.findall(q(WSDL, 'operation'))))
               for p_ in root.findall(q(WSDL, 'portType')))
    for b in root.findall(q(WSDL, 'binding')):
        t = b.get('type')
        if t is None:
            continue
        ns_, local, _ = _resolve(b, t)
        have = pts.get(local)
        if have is None:
            continue        # reported by the closure check
        for o in b.findall(q(WSDL, 'operation')):
            if o.get('name') not in have:
                V.append(('operations|binding-op-not-in-portType',
                          'binding %s implements portType %s but its operation '
                          '%s is not an operation of that portType' % (
                              b.get('name'), local, o.get('name'))))
                break
    # operation completeness
    pt_ops = {}
    for pt in root.findall(q(WSDL, 'portType')):
        for op in pt.findall(q(WSDL, 'operation')):
            pt_ops.setdefault(op.get('name'), []).append((pt.get('name'),
                                                          op))
    b_ops = {}
    for b in root.findall(q(WSDL, 'binding')):
        for op in b.findall(q(WSDL, 'operation')):
            b_ops.setdefault(op.get('name'), []).append((b.get('name'), op))
    for m in summary['methods_list']:
        n = len(pt_ops.get(m, ()))
        if n != 1:
            V.append(('operations|portType-count', 'method %s appears as %d '
                      'portType operations' % (m, n)))
            continue
        nb = len(b_ops.get(m, ()))
        if nb != 1:
            V.append(('operations|binding-count', 'method %s appears as %d '
                      'binding operations' % (m, nb)))
            continue
        ptop = pt_ops[m][0][1]
        bop = b_ops[m][0][1]
        if ptop.find(q(WSDL, 'input')) is None:
            V.append(('operations|no-input', 'operation %s has no input' % m))
        pf = sorted(f.get('name') for f in ptop.findall(q(WSDL, 'fault')))
        bf = sorted(f.get('name') for f in bop.findall(q(WSDL, 'fault')))
        if pf != bf:
            V.append(('operations|fault-mismatch', 'operation %s: portType '
                      'faults %r, binding faults %r' % (m, pf, bf)))
    return V


def run_case(case):
    V = []
    summaries = {}
    mine = {}
    docs = {}
    for s in case['app_seeds']:
        try:
            lazy, direct, summary = wsdl_variants(s)
        except BuildFailed as e:
            pre = 'bare-ns-message|' if e.summary.get('bare_ns_msg') else ''
            V.append({'sig': pre + 'build-failed' + ('' if pre else
                             '|' + type(e.exc).__name__),
                      'what': 'app %d was accepted by Application() but no '
                      'WSDL can be built for it: %s' % (s, str(e)[:200])})
            mine[str(s)] = ['BUILD-FAILED', type(e.exc).__name__]
            continue
        except Exception as e:
            mine[str(s)] = ['REJECTED', type(e).__name__]
            continue
        mine[str(s)] = [hashlib.sha256(lazy).hexdigest(),
                        hashlib.sha256(direct).hexdigest()]
        summaries[s] = summary
        docs[s] = lazy
        # (known finding: bare body style + message name in a namespace of
        # its own; everything such an application shows is filed under it)
        bare_ns = bool(summary.get('bare_ns_msg'))
        pre = 'bare-ns-message|' if bare_ns else ''
        if lazy != direct:
            V.append({'sig': pre + ('nondeterministic' if pre else
                                    'nondeterministic|repetition'),
                      'what': 'app %d: ?wsdl bytes differ from a direct build '
                      'on a second Application over the same classes (%s)' % (
                          s, _first_diff(lazy, direct))})
        for sig, what in check_document(lazy, summary):
            if bare_ns and sig.split('|')[0] in ('closure', 'unresolved',
                                                 'malformed'):
                sig = pre + sig.split('|')[0]
            V.append({'sig': sig, 'what': 'app %d: %s' % (s, what)})
    fired = {'hash_seed': 0, 'heap_pad': 0, 'build_repetition':
             len(summaries)}
    # determinism is judged among the child interpreters only: their heap
    # layout is a pure function of (hash seed, pad) because they run with
    # address-space randomisation off, so a disagreement replays exactly.
    first = None
    for hashseed, pad in case['envs']:
        code = ('import sys; sys.path.insert(0, %r)\n'
                'from props import c07\n'
                'c07.child_main(%r, %d)\n' % (VERIF, case['app_seeds'], pad))
        p = run_child(code, hashseed)
        try:
            theirs = json.loads(p.stdout.decode())
        except Exception:
            raise RuntimeError('C07 child failed: %s' %
                                                p.stderr.decode()[-600:])
        fired['hash_seed'] += 1
        fired['heap_pad'] += 1 if pad else 0
        if first is None:
            first = (hashseed, pad, theirs)
            continue
        for s in case['app_seeds']:
            if first[2].get(str(s)) != theirs.get(str(s)):
                V.append({'sig': 'nondeterministic|environment',
                          'what': 'app %d: WSDL digests %r under '
                          'PYTHONHASHSEED=%d heap pad %d, but %r under '
                          'PYTHONHASHSEED=%d heap pad %d' % (s,
                          first[2].get(str(s)), first[0], first[1],
                          theirs.get(str(s)), hashseed, pad)})
                break
    keys = []
    for s, sm in summaries.items():
        keys.append(digest([sm[k] for k in ('services', 'methods',
                    'namespaces', 'types', 'faults', 'headers', 'bare',
                    'custom_names', 'port_types', 'throws')]))
    return {
        'violations': V,
        'fired': fired,
        'probes': {'rejected_at_construction': len([1 for v in mine.values()
                                                    if v[0] == 'REJECTED']),
                   'apps_with_headers': len([1 for sm in summaries.values()
                                             if sm['headers']]),
                   'apps_with_faults': len([1 for sm in summaries.values()
                                            if sm['throws']]),
                   'apps_multi_namespace': len([1 for sm in summaries.values()
                                                if sm['namespaces'] > 1])},
        'signature': digest(keys),
        'nontrivial': True,
        'distinct_keys': keys,
        'evaluations': len(case['app_seeds']) * (1 + len(case['envs'])),
        'steps': len(case['app_seeds']),
        'simtime': 0.0,
        'digest': digest(mine),
        'summary': {'apps': len(summaries), 'envs': case['envs'],
                    'example': next(iter(summaries.values()), None)},
    }


def _first_diff(a, b):
    n = min(len(a), len(b))
    for i in range(n):
        if a[i] != b[i]:
            return 'first difference at byte %d: %r vs %r' % (i,
                                     a[max(0, i - 30):i + 30],
                                     b[max(0, i - 30):i + 30])
    return 'length %d vs %d' % (len(a), len(b))


def minimize(case, sig):
    """One application, the environments that disagree."""
    for s in case['app_seeds']:
        small = dict(case)
        small['app_seeds'] = [s]
        try:
            r = run_case(small)
        except Exception:
            continue
        if any(v['sig'] == sig for v in r['violations']):
            if sig.startswith('nondeterministic|environment'):
                for e in case['envs'][1:]:
                    s2 = dict(small)
                    s2['envs'] = [case['envs'][0], e]
                    if any(v['sig'] == sig
                           for v in run_case(s2)['violations']):
                        return s2
            else:
                small['envs'] = small['envs'][:1]
            return small
    return case
