"""C12 — concurrent requests do not interfere; lazy WSDL is built once, served whole.

System: one Application + protocols + WsgiApplication shared by 2..6 simulated
caller threads (sim.sched: baton-passing real threads, every spyne source line
a pre-emption point, SimLocks).  Searched: interleavings (PCT change points,
region-targeted switching inside the shared-state catalogue, start skew).
Oracle: every response equals, in canonical form, the response to the same
request processed alone on a fresh identically built instance; every ?wsdl
requester gets the bytes of a sequential build; the document is built exactly
once; no deadlock (DESIGN.md section 4, C12)."""

import gc
import warnings

from sim import bootstrap
bootstrap()

from sim.rng import Streams, derive
from sim.universe import (Universe, make_protocol, validators_for,
                 WsgiApplication, PROTOCOLS, XML_FAMILY, SOAP_FAMILY, Ctl,
                 Request)
from sim.workload import build_request, ExcSpec
from sim.gateway import call_wsgi
from sim import canon, sched, regions
from sim.runner import digest, ddmin

import spyne.context

ID = 'C12'
LEVEL = 'exploration'
BUDGET = {'quick': 420, 'thorough': 3300}
BLOCK = 40
BLOCK_TIMEOUT = 900
RULE = ('one run = 2..4 (the last groups of the plan: 5..6) caller threads issuing 1..3 requests each (distinct '
        'methods and arguments, faults, validation failures, unknown methods, '
        '?wsdl) against ONE WsgiApplication under one seeded schedule: 0..4 '
        'PCT change points over the run length plus probabilistic switching '
        '(p in [0.15, 0.7]) at every line executed inside one region of the '
        'shared-state catalogue and at the line reached when a region function '
        'returns (bytecode granularity inside the region in a share of the '
        'runs; every shared region at once, at a fifth of the rate, in a '
        'quarter of them), and at the seam points around lxml schema '
        'validation. Runs come in groups of 8 sharing workload and '
        'configuration and differing in schedule. Non-trivial = at least one '
        'switch happened inside a catalogue region or at a change point while '
        'two callers were in flight; distinct = distinct ordered lists of '
        '(from thread, to thread, file:function) switch sites.')
COMPONENTS = {
    'real': ['spyne.server.wsgi.WsgiApplication (shared instance)',
             'spyne.interface.* incl. Wsdl11 / XmlSchema builders',
             'spyne.protocol.* with their _attrcache/_sortcache', 'spyne.util.'
             'memo / cdict / oset / odict', 'spyne.context', 'spyne.'
             'application', 'lxml schema validation itself (libxml2)'],
    'stub': ['thread scheduler (sim.sched): baton passing, sys.monitoring LINE '
             'events as pre-emption points', 'SimLock / SimRLock in place of '
             'threading.Lock / RLock created by spyne', 'SimClock for spyne.'
             'context.time', 'seeded gc.collect() instead of automatic GC',
             'WSGI gateway per caller', 'user functions (deterministic in '
             'their arguments)', 'sim.sched.SchemaProxy: the Python-visible '
             'glue of lxml.etree.XMLSchema (__call__ / assertValid / error_log)'
             ' re-stated in Python with seam points where lxml runs without '
             'the GIL'],
}
ASSUMPTIONS = [
    'pre-emption at source-line granularity inside spyne (bytecode inside the '
    'targeted region); C-level calls (json, yaml, msgpack, lxml parsing and '
    'serialisation) are atomic steps, as they are under the GIL; lxml schema '
    'validation, which releases it, is bracketed by seam points',
    'at most 4 callers x 3 requests (crowd groups: 6 callers x 2 requests) and 4 uniform change points per run',
    'responses are compared in canonical form (prefix spelling, 0x addresses '
    'masked)',
]

PAIRS = [('soap11', 'soap11'), ('soap12', 'soap12'), ('xml', 'xml'),
         ('json', 'json'), ('yaml', 'yaml'), ('msgpack', 'msgpack'),
         ('msgpackrpc', 'msgpackrpc'), ('httprpc', 'json'), ('httprpc', 'xml'),
         ('json', 'xml'), ('soap11', 'soap11'), ('xml', 'xml')]
GROUP = 8

_CATALOGUE = None


class SimClock(object):
    def __init__(self, start=1.0e9, step=0.001):
        self.t = start
        self.step = step
        self.calls = 0

    def __call__(self):
        self.calls += 1
        self.t += self.step
        return self.t


KINDS = [['ok', 'prims'], ['ok', 'echo'], ['ok', 'inners'], ['ok', 'multi'],
         ['ok', 'noargs'], ['ok', 'sub'], ['ok', 'strict'], ['gen', 2],
         ['failcall'], ['unknown'], ['invalid'], ['wsdl'], ['ok', 'pa'],
         ['ok', 'poly'], ['malformed', 'truncate'], ['ok', 'item1'],
         ['ok', 'item2'], ['twins'], ['wsdl', 'badhost'],
         ['multiref', 'echo'], ['multiref', 'item1']]


def _request_mix(rng, theme):
    # a theme is a small subset of kinds: callers doing similar things contend
    # for the same shared state
    return rng.choice(theme)


def catalogue():
    """(S & X) | (A & X): X from a calibration run under the scheduler."""
    global _CATALOGUE
    if _CATALOGUE is not None:
        return _CATALOGUE
    seen = set()
    for k, pair in enumerate([('soap11', 'soap11', 'lxml'),
                              ('json', 'json', 'soft'),
                              ('httprpc', 'xml', None),
                              ('msgpack', 'msgpack', None),
                              ('yaml', 'yaml', 'soft'),
                              ('soap12', 'soap12', 'soft'),
                              ('xml', 'xml', 'lxml'),
                              ('msgpackrpc', 'msgpackrpc', None)]):
        # every request kind of the workload vocabulary is executed, so that
        # X contains whatever any of them can reach
        kinds = [list(x) for x in KINDS]
        callers = [kinds[0::3], kinds[1::3], kinds[2::3]]
        case = {'seed': 12345 + k, 'useed': 777 + k, 'in_prot': pair[0],
                'out_prot': pair[1], 'validator': pair[2],
                'poly': k % 2 == 0,
                'callers': callers,
                'aseeds': [[100 * c + i for i in range(len(cl))]
                           for c, cl in enumerate(callers)],
                'plan': {'pct': [50, 500, 2000], 'region': None, 'p': 0.0,
                         'sseed': 1}, 'gc': False}
        s, _, _ = _concurrent(case)
        seen |= s.seen_functions()
    with warnings.catch_warnings():
        warnings.simplefilter('ignore')
        _CATALOGUE = regions.catalogue(seen)
    return _CATALOGUE


def gen_cases(tier, verif_seed):
    n_groups = {'quick': 1200, 'thorough': 40000}[tier]
    opcode_share = {'quick': .25, 'thorough': .5}[tier]
    cat = sorted(catalogue())
    cat_list = [list(c) for c in cat]   # one object shared by every case
    # the last groups of the plan are crowds: 5..6 callers with 1..2 requests
    # each (appended, so that the cases before them are what they were)
    n_crowd = {'quick': 80, 'thorough': 4000}[tier]
    for g in range(n_groups + n_crowd):
        gseed = derive(ID, verif_seed, 'g', g) & 0xffffffffffff
        rng = Streams(gseed)['workload']
        pair = rng.choice(PAIRS)
        val = rng.choice(validators_for(pair[0]))
        n_callers = rng.choice((2, 2, 3, 3, 4))
        crowd = g >= n_groups
        if crowd:
            n_callers = rng.choice((5, 6))
        theme = KINDS if rng.random() < .35 else \
                               rng.sample(KINDS, rng.choice((1, 2, 2, 3)))
        callers, aseeds = [], []
        for c in range(n_callers):
            nreq = rng.randint(1, 2 if crowd else 3)
            callers.append([_request_mix(rng, theme) for _ in range(nreq)])
            aseeds.append([rng.getrandbits(32) for _ in range(nreq)])
        poly = rng.random() < .3
        # make first WSDL requests race in a good share of the groups
        wsdl_race = rng.random() < .4
        if wsdl_race:
            for c in range(min(n_callers, rng.randint(2, 4))):
                callers[c][0] = ['wsdl']
            # ... and now and then the build fails for one of the requesters
            if rng.random() < .25:
                callers[rng.randrange(n_callers)][0] = ['wsdl', 'badhost']
        for k in range(GROUP):
            seed = derive(gseed, 'run', k) & 0xffffffffffff
            sr = Streams(seed)['schedule']
            d = sr.choice((0, 1, 1, 2, 2, 3, 4))
            # 'auto': a catalogue region that at least two callers of THIS
            # workload execute (resolved by a calibration run in run_case)
            region = ['auto', sr.getrandbits(16)] if sr.random() < .85 \
                                                                  else None
            if region is not None and k % 4 == 3:
                # every shared region at once, with a lower switch rate
                region = ['auto-all', 0]
            force_opcodes = False
            if wsdl_race and k % 4 == 1:
                # the double-checked build: windows inside single lines
                region = ['server/wsgi.py', 'handle_wsdl_request']
                force_opcodes = True
            yield {
                'seed': seed, 'useed': gseed & 0xffffffff,
                'in_prot': pair[0], 'out_prot': pair[1], 'validator': val,
                'poly': poly,
                'callers': callers, 'aseeds': aseeds,
                'plan': {'pct_n': d, 'region': region,
                         'p': round(sr.uniform(.15, .7), 3),
                         'sseed': sr.getrandbits(48),
                         # bytecode-granular pre-emption inside the region
                         'opcodes': region is not None and
                         (sr.random() < opcode_share or force_opcodes)},
                'gc': sr.random() < .1,
                'catalogue': cat_list,
            }


def _instance(case):
    """Fresh universe + application + WSGI transport for this case."""
    ctl = Ctl()
    uni = Universe(Streams(case['useed'])['universe'], ctl=ctl)
    # `fail` raises a deterministic client fault; nothing else raises
    spec = {'kind': 'fault_client', 'code': 'Client.Denied',
            'msg': u'denied \xe9', 'detail': {'why': 'because'},
            'secret': 'x'}
    ctl.inject['fn:fail'] = lambda: ExcSpec.make(spec)
    kw = {}
    if case.get('poly') and case['out_prot'] in XML_FAMILY:
        kw['polymorphic'] = True
    app = uni.make_app(make_protocol(case['in_prot'], case['validator']),
                                    make_protocol(case['out_prot'], **kw))
    wsgi = WsgiApplication(app)
    if getattr(app.in_protocol, 'validation_schema', None) is not None:
        # lxml validates with the GIL released: make that window schedulable
        app.in_protocol.validation_schema = sched.SchemaProxy(
                                          app.in_protocol.validation_schema)
    built = []
    if wsgi.doc.wsdl11 is not None:
        wsgi.doc.wsdl11.event_manager.add_listener('wsdl_document_built',
                                          lambda w: built.append(1))
    return uni, wsgi, built


def _mk_request(uni, case, rclass, aseed):
    rng = Streams(aseed)['args']
    if rclass[0] == 'twins':
        # same-named classes of two namespaces, in flight together
        rclass = ['ok', 'item1' if rng.random() < .5 else 'item2']
    if rclass[0] == 'failcall':
        from sim.universe import encode_request
        r = encode_request(uni, case['in_prot'], 'fail', {'a': 3})
        return r
    return build_request(uni, case['in_prot'], rclass, rng)


_REF_CACHE = {}
_SHARED_CACHE = {}


def _resolve_region(case, k):
    """Calibration: run the workload once with no voluntary switch and see
    which catalogue functions at least two callers execute."""
    key = digest([case['useed'], case['in_prot'], case['out_prot'],
                  case['validator'], case.get('poly'), case['callers'],
                  case['aseeds']])
    shared = _SHARED_CACHE.get(key)
    if shared is None:
        c = dict(case)
        c['plan'] = {'pct': [], 'region': None, 'p': 0.0, 'sseed': 0}
        s, _, _ = _concurrent(c)
        cat = set(tuple(x) for x in case.get('catalogue') or catalogue())
        both = sorted(s.shared_functions() & cat)
        # executed by one caller only (e.g. an error path that writes what a
        # concurrent success path reads)
        single = sorted((s.executed_functions() & cat) - set(both))
        shared = (both, single)
        if len(_SHARED_CACHE) > 500:
            _SHARED_CACHE.clear()
        _SHARED_CACHE[key] = shared
    both, single = shared
    # three quarters of the draws go to functions two callers execute
    if both and (k % 4 != 3 or not single):
        return list(both[(k // 4) % len(both)])
    if single:
        return list(single[(k // 4) % len(single)])
    return None


def _reference(case, ci, ri):
    """Canonical response of request (ci, ri) processed ALONE on a fresh,
    identically built instance."""
    rclass = case['callers'][ci][ri]
    key = digest([case['useed'], case['in_prot'], case['out_prot'],
                  case['validator'], case.get('poly'), rclass,
                  case['aseeds'][ci][ri]])
    hit = _REF_CACHE.get(key)
    if hit is not None:
        return hit
    uni, wsgi, built = _instance(case)
    req = _mk_request(uni, case, rclass, case['aseeds'][ci][ri])
    o = call_wsgi(wsgi, req)
    ref = (canon.canon_response(case['out_prot'], o, rclass[0] == 'wsdl'),
           _cl_ok(o), canon.mask(o.body) if o.body is not None else None)
    if len(_REF_CACHE) > 4000:
        _REF_CACHE.clear()
    _REF_CACHE[key] = ref
    return ref


def _cl_ok(o):
    cl = o.header('Content-Length') if o.headers else None
    if cl is None or o.body is None:
        return True
    return cl.isdigit() and int(cl) == len(o.body)


def _concurrent(case, schedule=None):
    sched.install_seams()
    uni, wsgi, built = _instance(case)
    reqs = [[_mk_request(uni, case, rc, case['aseeds'][ci][ri])
             for ri, rc in enumerate(reqs)]
            for ci, reqs in enumerate(case['callers'])]
    results = [[None] * len(r) for r in reqs]

    def body(ci):
        def run():
            for ri, req in enumerate(reqs[ci]):
                results[ci][ri] = call_wsgi(wsgi, req)
        return run

    plan = case['plan']
    if schedule is not None:
        p = {'replay': schedule['replay'], 'forced': schedule['forced'],
             'opcodes': schedule.get('opcodes', False),
             'region': set(tuple(x) for x in schedule['regions'])
             if schedule.get('regions') else (
             set([tuple(schedule['region'])])
             if schedule.get('region') else set())}
    else:
        rng = Streams(plan['sseed'])['schedule']
        est = 2500 * sum(len(r) for r in reqs)
        pct = plan.get('pct')
        if pct is None:
            pct = sorted(rng.randint(1, est) for _ in range(plan['pct_n']))
        region = plan['region']
        pp = plan['p']
        if region and region[0] == 'auto-all':
            _resolve_region(case, 0)
            key = digest([case['useed'], case['in_prot'], case['out_prot'],
                          case['validator'], case.get('poly'),
                          case['callers'], case['aseeds']])
            regions_ = set(tuple(x) for x in _SHARED_CACHE[key][0])
            pp = pp * 0.2
        else:
            if region and region[0] == 'auto':
                region = _resolve_region(case, region[1])
            regions_ = set([tuple(region)]) if region else set()
        p = {'rng': rng, 'pct': pct, 'region': regions_, 'p': pp,
             'opcodes': bool(plan.get('opcodes')) and len(regions_) == 1}
    s = sched.Scheduler(len(reqs), p)
    clock = SimClock()
    old_time = spyne.context.time
    old_last = spyne.context._LAST_GC_RUN
    spyne.context.time = clock
    # throttle state is process-global: pin it so the run does not depend on
    # what this process did before
    spyne.context._LAST_GC_RUN = 0.0 if case.get('gc') else clock.t + 1e9
    gc_was = gc.isenabled()
    gc.disable()
    try:
        s.run([body(i) for i in range(len(reqs))])
    finally:
        spyne.context.time = old_time
        spyne.context._LAST_GC_RUN = old_last
        if gc_was:
            gc.enable()
    s.clock_calls = clock.calls
    s.clock_elapsed = clock.calls * clock.step
    mtx = getattr(wsgi, '_mtx_build_interface_document', None)
    s.wsdl_lock_contended = getattr(mtx, 'contended', 0)
    return s, results, built


def run_case(case):
    schedule = case.get('schedule')
    # Step counts must not depend on what this process ran before (lazy
    # imports, first-use caches): the same workload is always executed once,
    # unscheduled, on a throwaway instance first (the calibration run).
    _resolve_region(case, 0)
    s, results, built = _concurrent(case, schedule)
    V = []
    out_prot = case['out_prot']

    def viol(sig, what):
        V.append({'sig': sig, 'what': what})

    if s.aborted:
        if s.aborted.startswith('deadlock'):
            viol('deadlock', s.aborted)
        else:
            raise RuntimeError('harness: run aborted: %s' % s.aborted)
    for idx, e in sorted(s.errors.items()):
        raise RuntimeError('harness: caller %d died: %r' % (idx, e))

    n_wsdl = n_wsdl_good = 0
    switch_sites = [d[3] for d in s.decisions]
    if not s.aborted:
        for ci, reqs in enumerate(case['callers']):
            for ri, rclass in enumerate(reqs):
                o = results[ci][ri]
                if o is None:
                    viol('no-response', 'caller %d request %d never completed'
                                                              % (ci, ri))
                    continue
                is_wsdl = rclass[0] == 'wsdl'
                n_wsdl += is_wsdl
                n_wsdl_good += rclass == ['wsdl']
                got = canon.canon_response(out_prot, o, is_wsdl)
                ref, _, ref_raw = _reference(case, ci, ri)
                if is_wsdl and rclass != ['wsdl'] and got != ref:
                    # the build fails for this requester when it is the one
                    # that builds; once somebody else's build has succeeded it
                    # is served the same complete document as everybody else
                    ref, _, ref_raw = _reference(dict(case, callers=[[
                        ['wsdl']]], aseeds=[[0]]), 0, 0)
                if got == ref and ref_raw != (canon.mask(o.body)
                                      if o.body is not None else None):
                    # same document, different bytes (e.g. namespace
                    # declarations): still not the response it gets alone
                    viol('bytes-differ|%s' % rclass[0], 'caller %d request %d '
                         '(%s): the response parses to the same document but '
                         'its bytes differ from what it gets alone: alone=%s '
                         'concurrent=%s' % (ci, ri, rclass, _short(ref_raw),
                                            _short(canon.mask(o.body))))
                if got != ref:
                    path = _diff_path(ref, got)
                    kind = 'wsdl-differs' if is_wsdl else (
                        'exception' if got[3] is not None and ref[3] is None
                        else 'rpc-differs')
                    viol('%s|%s|%s' % (kind, rclass[0], path),
                         'caller %d request %d (%s) got a response that '
                         'differs from the one it gets alone on a fresh '
                         'instance at %s: alone=%s concurrent=%s' % (
                             ci, ri, rclass, path, _short(ref), _short(got)))
                if not _cl_ok(o):
                    viol('content-length|%s' % rclass[0], 'Content-Length '
                         'does not match the bytes produced (caller %d)' % ci)
        if n_wsdl and wsgi_has_wsdl(case) and \
                                    len(built) != (1 if n_wsdl_good else 0):
            viol('wsdl-built-%d-times' % len(built), 'wsdl_document_built '
                 'fired %d times for %d ?wsdl requests (%d of them can be '
                 'answered)' % (len(built), n_wsdl, n_wsdl_good))
    in_flight_switches = len(s.decisions)
    sig = digest([[d[0], d[2], d[3]] for d in s.decisions])
    region_probes = dict(('switch_at:' + k, v)
                         for k, v in s.region_hits.items())
    # minimisation needs the explicit schedule
    res = {
        'violations': V,
        'fired': {'thread_switch': len(s.decisions),
                  'opcode_granular_run': 1 if s.opcodes and s.instr_steps
                  else 0,
                  'forced_decision': len(s.forced_log),
                  'gc_path': 1 if case.get('gc') else 0},
        'probes': {
            'switch_in_region': len([1 for d in s.decisions if s.region and
                   d[3] == '%s:%s' % sorted(s.region)[0]]),
            'steps_in_region': s.in_region_steps,
            'instruction_steps_in_region': s.instr_steps,
            'wsdl_requests': n_wsdl,
            'wsdl_lock_contended': getattr(s, 'wsdl_lock_contended', 0),
            'runs_with_racing_wsdl': 1 if n_wsdl >= 2 and any(
                'handle_wsdl_request' in x or 'wsdl11' in x or 'xml_schema'
                in x for x in switch_sites) else 0,
        },
        'signature': sig,
        'nontrivial': in_flight_switches > 0,
        'steps': s.step,
        'simtime': getattr(s, 'clock_elapsed', 0.0),
        'digest': digest([[d[:4] for d in s.decisions], s.forced_log, s.step,
                          [[_short(canon.canon_response(out_prot, o,
                            case['callers'][ci][ri][0] == 'wsdl'), 10 ** 6)
                            if o is not None else None
                            for ri, o in enumerate(rs)]
                           for ci, rs in enumerate(results)]]),
        'summary': {'steps': s.step, 'switches': len(s.decisions),
                    'sites': sorted(set(switch_sites))[:8]},
        'schedule': {'replay': [d[:3] for d in s.decisions],
                     'forced': list(s.forced_log),
                     'opcodes': s.opcodes,
                     'region': list(sorted(s.region)[0]) if s.region
                     else None,
                     'regions': [list(x) for x in sorted(s.region)]},
        'region_switches': dict(s.region_hits),
        'extra_probes': region_probes,
        'region': sorted(s.region)[0] if s.region else None,
    }
    return res


def wsgi_has_wsdl(case):
    return True


def _short(c, n=300):
    s = repr(c)
    return s if len(s) <= n else s[:n] + '...'


def _diff_path(a, b):
    """First differing position of two canonical responses, as a short
    line-number-free path."""
    names = ['status', 'headers', 'body', 'exception']
    for i, (x, y) in enumerate(zip(a, b)):
        if x != y:
            if i == 2:
                return 'body:' + _body_path(x, y)
            if i == 3:
                return 'exception:%s' % (y[1] if y else (x[1] if x else ''))
            return names[i]
    return '?'


def _body_path(x, y, depth=0):
    if type(x) != type(y) or not isinstance(x, tuple) or depth > 12:
        return 'value'
    if len(x) and isinstance(x[0], str) and x[0] in ('xml', 'json', 'yaml',
                                           'msgpack', 'bytes', 'UNDECODABLE'):
        if x[0] != y[0]:
            return 'kind:%s->%s' % (x[0], y[0])
        if x[0] == 'xml':
            return _xml_path(x[1], y[1])
        return x[0]
    return 'value'


def _xml_path(x, y, depth=0):
    # (tag, attrs, text, kids, tails)
    if x[0] != y[0]:
        return 'tag'
    tag = x[0].split('}')[-1]
    if x[1] != y[1]:
        return '%s/@attrs' % tag
    if x[2] != y[2]:
        return '%s/text()' % tag
    if len(x[3]) != len(y[3]):
        return '%s/children' % tag
    for a, b in zip(x[3], y[3]):
        if a != b and depth < 6:
            return '%s/%s' % (tag, _xml_path(a, b, depth + 1))
    return tag


def minimize(case, sig):
    """Delta-debug the explicit schedule (then callers / requests)."""
    r = run_case(case)
    if not any(v['sig'] == sig for v in r['violations']):
        return case
    cur = dict(case)
    cur['schedule'] = r['schedule']

    budget = [80]       # bounded: a replay file beats a perfect one

    def still(c):
        if budget[0] <= 0:
            return False
        budget[0] -= 1
        try:
            rr = run_case(c)
        except Exception:
            return False
        return any(v['sig'] == sig for v in rr['violations'])

    if not still(cur):
        return case     # explicit replay must reproduce; else keep the seed

    def test(sw):
        c = dict(cur)
        c['schedule'] = dict(cur['schedule'])
        c['schedule']['replay'] = sw
        return still(c)

    sw = ddmin(cur['schedule']['replay'], test)
    cur['schedule'] = dict(cur['schedule'])
    cur['schedule']['replay'] = sw
    # drop trailing requests of each caller
    changed = True
    while changed:
        changed = False
        for ci in range(len(cur['callers'])):
            if len(cur['callers'][ci]) > 1:
                c = dict(cur)
                c['callers'] = [list(x) for x in cur['callers']]
                c['aseeds'] = [list(x) for x in cur['aseeds']]
                c['callers'][ci].pop()
                c['aseeds'][ci].pop()
                if still(c):
                    cur = c
                    changed = True
    return cur
