"""C15 — deriving a model never changes another model; field order deterministic.

History machine: a pool of models, a seeded sequence of derivation / evolution
operations plus environment actions (seeded gc.collect(), dropping references to
variants, warming the memo tables).  After EVERY step every pool member is
snapshotted (attributes, ordered fields, recursively; verdicts on probe values)
and compared: the frame oracle (untouched members identical), the effect oracle
(new member = source + requested delta), caller-owned dicts untouched, order of
fields == declaration order (type info, schema sequence, XML / JSON output); a
sample of histories is replayed in child interpreters under other hash seeds and
heap layouts and must give identical snapshots (DESIGN.md section 4, C15)."""

import copy
import decimal
import gc
import json
import os
import subprocess
import sys

from sim import bootstrap
bootstrap()

from sim.rng import Streams, derive
from sim.runner import digest, ddmin, VERIF
from sim.proc import run_child

from spyne import Application, Service, rpc
from spyne.model.complex import (ComplexModel, ComplexModelBase, Array,
                                 Iterable, Mandatory)
from spyne.model.primitive import (Integer, Unicode, Decimal, Boolean, Date,
                                   Double, DateTime)
from spyne.model.binary import ByteArray
from spyne.model import ModelBase
from spyne.protocol.xml import XmlDocument
from spyne.protocol.json import JsonDocument

ID = 'C15'
LEVEL = 'exploration'
BUDGET = {'quick': 300, 'thorough': 3000}
BLOCK = 100
RULE = ('one run = one history of 3..25 operations (primitive customisation, '
        'customize, child_attrs / child_attrs_all / child_attrs_noexc, Array '
        '(wrapped, unwrapped, member_name, serializer_attrs), Iterable, '
        'Mandatory, subclassing, append_field, insert_field; environment: '
        'gc_collect, drop_reference, touch_caches, render_schema) on a pool of '
        'models, every member observed after every step. Non-trivial = at '
        'least one evolution operation (append/insert) or aliasing-prone '
        'derivation (Mandatory/Array/child_attrs*) on a member that already '
        'has derivatives; distinct = distinct operation-kind sequences with '
        'their operand relations.')
COMPONENTS = {
    'real': ['spyne.model._base (ModelBase, _s_customize, Attributes)',
             'spyne.model.complex (ComplexModelMeta, customize, '
             '_process_child_attrs, Array, Iterable, Mandatory, append_field, '
             'insert_field, _variants)', 'spyne.model.primitive.*',
             'spyne.util.odict / TypeInfo', 'spyne.util.memo tables',
             'spyne.interface.xml_schema (schema sequence order)',
             'XmlDocument / JsonDocument output order'],
    'stub': ['the application code that declares and derives models (the '
             'history generator)', 'garbage collector schedule (gc disabled, '
             'seeded gc.collect())', 'hash seed / heap layout of the child '
             'interpreters'],
}
ASSUMPTIONS = [
    'observation = public constraint attributes (fixed list), ordered fields '
    'recursively, __extends__, verdicts of validate_string / validate_native '
    'on a fixed probe set; private bookkeeping (_variants, parent_variant, '
    'memo tables) is not observed',
    'interface population legitimately fills empty type names and namespaces: '
    'those two fields are excluded on their Empty -> name transition',
    'XmlAttribute is not among the derivations the property lists and is not '
    'generated',
]

ATTRS = ['min_occurs', 'max_occurs', 'nillable', 'nullable', 'default',
         'min_len', 'max_len', 'pattern', 'ge', 'gt', 'le', 'lt', 'values',
         'exc', 'sub_name', 'sub_ns', 'order', 'total_digits',
         'fraction_digits', 'min_bound', 'max_bound', 'unicode_pattern',
         'validate_freq', 'not_wrapped', 'wrapper', 'read_only',
         'max_str_len', 'format', 'encoding', 'validate_on_assignment',
         'primary_key', 'sqla_column_args', 'prot_attrs', 'translations']

PROBE_STR = [u'', u'a', u'abc', u'abcdefghijkl', u'0', u'7', u'-5', u'1000',
             u'2020-01-02', u'x y', None]
PROBE_NATIVE = [None, 0, 7, -5, 1000, u'', u'a', u'abcdefghijkl',
                decimal.Decimal('1.5')]

OPS = ['ordered_class', 'prim_customize', 'recustomize', 'customize',
       'child_attrs',
       'child_attrs_all',
       'child_attrs_noexc', 'array', 'iterable', 'mandatory', 'subclass',
       'append_field', 'insert_field', 'gc_collect', 'drop_reference',
       'touch_caches', 'mandatory', 'array', 'append_field', 'customize']

PRIMS = [('Integer', Integer), ('Unicode', Unicode), ('Decimal', Decimal),
         ('Boolean', Boolean), ('Date', Date), ('Double', Double)]

GENERIC_ATTRS = [('min_occurs', (0, 1, 2)), ('max_occurs', (1, 3, 'unbounded')),
                 ('nillable', (True, False)), ('sub_name', ('alias', 'other')),
                 ('exc', (True, False)), ('order', (0, 1, -1)),
                 ('default', (None,)), ('pk', (True, False)),
                 ('autoincrement', (True,)), ('server_default', ('sd',)),
                 ('doc', ('some doc',))]
INT_ATTRS = [('ge', (0, 5)), ('le', (10, 100)), ('gt', (-1,)), ('lt', (1000,)),
             ('default', (3, 7))]
UNI_ATTRS = [('min_len', (1, 2)), ('max_len', (5, 8)),
             ('pattern', (u'[a-z]+', u'\\d+')), ('values', ([u'a', u'b'],)),
             ('default', (u'dflt',))]


# ---------------------------------------------------------------------------
# observation


def _canon(v):
    if v is None or isinstance(v, (bool, int, str)):
        return v
    if isinstance(v, float):
        return repr(v)
    if isinstance(v, decimal.Decimal):
        return 'D:%s' % v
    if isinstance(v, (list, tuple, set, frozenset)):
        items = [_canon(x) for x in v]
        if isinstance(v, (set, frozenset)):
            items = sorted(items, key=repr)
        return items
    if isinstance(v, dict):
        return sorted(([_canon(k), _canon(x)] for k, x in v.items()), key=repr)
    if isinstance(v, type):
        return 'cls:%s' % v.__name__
    if hasattr(v, 'pattern'):
        return 're:%s' % v.pattern
    return 'obj:%s' % type(v).__name__


def snapshot(cls, depth=0, seen=None):
    seen = seen or ()
    if id(cls) in seen or depth > 5:
        return {'ref': cls.__name__, 'attrs': {}}
    seen = seen + (id(cls),)
    s = {'name': cls.__name__}
    A = cls.Attributes
    s['attrs'] = dict((k, _canon(getattr(A, k))) for k in ATTRS
                                                        if hasattr(A, k))
    # customisation fills these defaults in (None -> empty container): the same
    # value as far as any observer can tell
    for k in ('translations', 'prot_attrs', 'sqla_column_args'):
        v = s['attrs'].get(k)
        if v in (None, [], [[], []], {}):
            s['attrs'][k] = None
    tn = cls.get_type_name()
    s['type_name'] = None if tn is ModelBase.Empty else tn
    s['namespace'] = cls.get_namespace()
    if issubclass(cls, ComplexModelBase):
        s['kind'] = 'array' if issubclass(cls, Array) else 'complex'
        ti = getattr(cls, '_type_info', None) or {}
        s['fields'] = [[k, snapshot(v, depth + 1, seen)]
                                                for k, v in ti.items()]
        try:
            s['flat'] = list(cls.get_flat_type_info(cls).keys())
        except Exception as e:
            s['flat'] = 'ERR:%s' % type(e).__name__
        ext = getattr(cls, '__extends__', None)
        s['extends'] = snapshot(ext, depth + 1, seen) if ext is not None \
                                                                  else None
    else:
        s['kind'] = 'prim'
        vs, vn = [], []
        for p in PROBE_STR:
            try:
                vs.append(bool(cls.validate_string(cls, p)))
            except Exception as e:
                vs.append('E:%s' % type(e).__name__)
        for p in PROBE_NATIVE:
            try:
                vn.append(bool(cls.validate_native(cls, p)))
            except Exception as e:
                vn.append('E:%s' % type(e).__name__)
        s['verdicts'] = [vs, vn]
    return s


def _strip_names(s):
    """Snapshot without type_name / namespace (recursively)."""
    if not isinstance(s, dict):
        return s
    out = {}
    for k, v in s.items():
        if k in ('type_name', 'namespace', 'name'):
            continue
        if k == 'fields':
            out[k] = [[fn, _strip_names(fs)] for fn, fs in v]
        elif k == 'extends':
            out[k] = _strip_names(v)
        else:
            out[k] = v
    return out


def _name_transition_ok(a, b):
    """b may differ from a only by type_name/namespace going None -> value
    (and Array member keys renamed accordingly by _fill_empty_type_name)."""
    if not isinstance(a, dict) or not isinstance(b, dict):
        return a == b
    for k in set(a) | set(b):
        x, y = a.get(k), b.get(k)
        if k in ('type_name', 'namespace'):
            if x != y and x is not None:
                return False
        elif k == 'fields':
            if len(x) != len(y):
                return False
            for (fa, sa), (fb, sb) in zip(x, y):
                if fa != fb and fa != 'OhNoes':
                    return False
                if not _name_transition_ok(sa, sb):
                    return False
        elif k == 'flat':
            if x != y and not (isinstance(x, list) and isinstance(y, list)
                               and len(x) == len(y) and 'OhNoes' in x):
                return False
        elif k == 'extends':
            if not _name_transition_ok(x, y):
                return False
        elif x != y:
            return False
    return True


def _diff(a, b, path=''):
    """First difference of two snapshots as a short, line-free path."""
    if type(a) != type(b):
        return path or 'type'
    if isinstance(a, dict):
        for k in sorted(set(a) | set(b)):
            if a.get(k) != b.get(k):
                if k == 'attrs':
                    for n in sorted(set(a[k]) | set(b[k])):
                        if a[k].get(n) != b[k].get(n):
                            return '%s/attrs.%s' % (path, n)
                return _diff(a.get(k), b.get(k), '%s/%s' % (path, k))
        return path
    if isinstance(a, list):
        if len(a) != len(b):
            return path + '/len'
        for i, (x, y) in enumerate(zip(a, b)):
            if x != y:
                if isinstance(x, list) and len(x) == 2 and \
                                              isinstance(x[0], str):
                    if x[0] != y[0]:
                        return '%s/fieldname' % path
                    return _diff(x[1], y[1], '%s[field]' % path)
                return _diff(x, y, '%s[i]' % path)
    return path or 'value'


# ---------------------------------------------------------------------------
# history generation


def gen_cases(tier, verif_seed):
    n = {'quick': 9600, 'thorough': 300000}[tier]
    n_env = {'quick': 64, 'thorough': 640}[tier]
    every = max(1, n // n_env)
    j = 0
    for i in range(n):
        seed = derive(ID, verif_seed, i) & 0xffffffffffff
        yield {'kind': 'history', 'seed': seed, 'ops': None}
        if i % every == every - 1 and j < n_env:
            # environment replays are spread over the blocks (each starts a
            # child interpreter)
            seed = derive(ID, verif_seed, 'env', j) & 0xffffffffffff
            j += 1
            r = Streams(seed)['env']
            yield {'kind': 'env', 'seed': seed,
                   'hist_seeds': [derive(ID, verif_seed, r.randrange(n))
                                  & 0xffffffffffff for _ in range(40)],
                   'hashseed': r.randint(1, 2 ** 31),
                   'pad': r.randint(0, 5000)}


def _draw_attrs(r, kind):
    pool = list(GENERIC_ATTRS)
    if kind == 'Integer' or kind == 'Decimal':
        pool += INT_ATTRS
    if kind == 'Unicode':
        pool += UNI_ATTRS
    out = {}
    for k, vals in r.sample(pool, r.randint(1, 3)):
        out[k] = r.choice(vals)
    if out.get('default', 0) is None:
        del out['default']
    return out


def draw_ops(seed):
    r = Streams(seed)['workload']
    n = r.randint(3, 25)
    ops = []
    for _ in range(n):
        k = r.choice(OPS)
        a, b = r.getrandbits(16), r.getrandbits(16)
        if k in ('prim_customize', 'customize'):
            ops.append([k, a, _draw_attrs(r, r.choice(('Integer', 'Unicode',
                                                       'other')))])
        elif k in ('child_attrs', 'child_attrs_noexc'):
            spec = [[r.getrandbits(8), _draw_attrs(r, 'other')]
                    for _ in range(r.randint(1, 2))]
            if k == 'child_attrs' and r.random() < .5:
                # name a field that does not exist yet ("delayed" attrs):
                # ['future', n] = the n-th field that will be added next
                spec.append([['future', r.randint(1, 3)],
                             _draw_attrs(r, 'Integer')])
            ops.append([k, a, spec])
        elif k == 'child_attrs_all':
            ops.append([k, a, _draw_attrs(r, 'other')])
        elif k == 'array':
            ops.append([k, a, r.choice(('plain', 'unwrapped', 'member_name',
                                        'serializer_attrs', 'plain',
                                        'unwrapped_n'))])
        elif k in ('iterable', 'mandatory', 'drop_reference', 'recustomize'):
            ops.append([k, a])
        elif k == 'subclass':
            ops.append([k, a, [b % 7, (b >> 3) % 7][:r.randint(1, 2)]])
        elif k == 'ordered_class':
            nf = r.randint(3, 7)
            orders = [None] * nf
            for idx in r.sample(range(nf), r.randint(2, min(4, nf))):
                orders[idx] = r.choice((0, 1, 2, 3, -1, -2, 5))
            ops.append([k, a, orders])
        elif k == 'append_field':
            ops.append([k, a, b])
        elif k == 'insert_field':
            ops.append([k, a, b, r.randint(-4, 4)])
        else:
            ops.append([k])
    return ops


# ---------------------------------------------------------------------------
# the machine


class Machine(object):
    def __init__(self, seed):
        self.pool = []          # [cls]
        self.meta = []          # [{'kind':..., 'src': idx|None, 'rel':...}]
        self.V = []
        self.counter = 0
        self.step = 0
        self.kinds = []
        self.fired = {}
        self.nontrivial = False
        # start pool: primitives + generated complex classes
        for name, c in PRIMS:
            self._add(c, 'prim', None, 'builtin', name)
        C0 = type('C0', (ComplexModel,), {'__namespace__': 'ns.c',
                  '_type_info': [('a', Integer), ('b', Unicode),
                                 ('c', Decimal)]})
        self._add(C0, 'complex', None, 'declared', 'C0')
        C1 = type('C1', (ComplexModel,), {'__namespace__': 'ns.c',
                  '_type_info': [('x', C0), ('ys', Array(Unicode)),
                                 ('n', Integer(ge=0))]})
        self._add(C1, 'complex', None, 'declared', 'C1')
        C2 = type('C2', (C0,), {'__namespace__': 'ns.c',
                  '_type_info': [('d', Date), ('e', Unicode(max_len=4))]})
        self._add(C2, 'complex', 6, 'subclass', 'C2')
        E0 = type('E0', (ComplexModel,), {'__namespace__': 'ns.c'})
        e0 = self._add(E0, 'complex', None, 'declared', 'E0')
        E1 = type('E1', (E0,), {'__namespace__': 'ns.c',
                  '_type_info': [('z', Integer)]})
        self._add(E1, 'complex', e0, 'subclass', 'E1')
        self.snaps = [snapshot(c) for c in self.pool]

    def _add(self, cls, kind, src, rel, base):
        self.pool.append(cls)
        delayed, delayed_all = {}, None
        if src is not None and rel in ('customized',):
            # a variant starts with a copy of its source's delayed attrs
            delayed = copy.deepcopy(self.meta[src].get('delayed', {}))
            delayed_all = copy.deepcopy(self.meta[src].get('delayed_all'))
        self.meta.append({'kind': kind, 'src': src, 'rel': rel, 'base': base,
                          'alive': True, 'delayed': delayed,
                          'delayed_all': delayed_all})
        return len(self.pool) - 1

    def viol(self, sig, what):
        # A declared base class WITHOUT fields is not recorded as __extends__
        # by spyne (ComplexModelMeta tells framework roots from user classes
        # by their being empty).  Everything that follows from that one root
        # cause is reported under one coarse signature per oracle.
        if self._empty_base_involved():
            sig = 'empty-base|' + sig.split('|')[0]
        self.V.append({'sig': sig, 'what': 'step %d: %s' % (self.step, what)})

    def _lineage(self, i):
        out = set()
        while i is not None and i not in out:
            out.add(i)
            i = self.meta[i]['src']
        return out

    def _empty_base_involved(self):
        t = getattr(self, '_last_target', None)
        if t is None:
            return False
        roots = set(j for j, m in enumerate(self.meta)
                    if m['base'] in ('E0', 'E1'))
        return bool(self._lineage(t) & roots) or \
            self.meta[t]['base'] in ('E0', 'E1')

    # -- helpers -------------------------------------------------------------
    def _live(self, kind=None):
        return [i for i, m in enumerate(self.meta) if m['alive'] and
                (kind is None or m['kind'] in kind)]

    def _pick(self, a, kind=None):
        live = self._live(kind)
        if not live:
            return None
        return live[a % len(live)]

    def _has_derivatives(self, i):
        return any(m['src'] == i for m in self.meta)

    def _refs(self, i):
        """Pool members that (transitively) reference pool[i] through fields,
        __extends__ or derivation from it."""
        target = set([i])
        changed = True
        while changed:
            changed = False
            for j, c in enumerate(self.pool):
                if j in target or not self.meta[j]['alive']:
                    continue
                if self._mentions(c, [self.pool[t] for t in target]):
                    target.add(j)
                    changed = True
        return target

    def _mentions_self(self, c):
        ti = getattr(c, '_type_info', None) or {}
        orig = getattr(c, '__orig__', None) or c
        for v in ti.values():
            if v is c or v is orig or getattr(v, '__orig__', None) is orig:
                return True
            vi = getattr(v, '_type_info', None) or {}
            for w in vi.values():
                if w is c or w is orig or getattr(w, '__orig__', None) is orig:
                    return True
        return False

    def _mentions(self, c, targets, depth=0, seen=None):
        seen = seen or set()
        if id(c) in seen or depth > 6:
            return False
        seen.add(id(c))
        for t in targets:
            if c is t:
                return True
            if getattr(c, '__orig__', None) is t:
                return True
            try:
                if issubclass(c, t) and issubclass(t, ComplexModelBase) and \
                        t not in (ComplexModel, ComplexModelBase, Array):
                    return True
            except TypeError:
                pass
        ext = getattr(c, '__extends__', None)
        if ext is not None and self._mentions(ext, targets, depth + 1, seen):
            return True
        ti = getattr(c, '_type_info', None)
        if ti:
            for v in ti.values():
                if self._mentions(v, targets, depth + 1, seen):
                    return True
        return False

    # -- one step --------------------------------------------------------------
    def apply(self, op):
        self.step += 1
        k = op[0]
        before = self.snaps
        allowed = set()         # members allowed to change
        new_idx = None
        dicts = []              # (label, original, deep copy)
        try:
            new_idx, allowed = getattr(self, 'op_' + k)(op, dicts)
        except _Skip:
            self.kinds.append('skip')
            return
        except Exception as e:
            self.viol('op-raised|%s|%s' % (k, type(e).__name__),
                      'operation %s raised %s: %s' % (op, type(e).__name__,
                                                      str(e)[:200]))
            self.snaps = [snapshot(c) if self.meta[i]['alive'] else None
                          for i, c in enumerate(self.pool)]
            return
        self.kinds.append(k)
        self.fired[k] = self.fired.get(k, 0) + 1
        after = [snapshot(c) if self.meta[i]['alive'] else None
                 for i, c in enumerate(self.pool)]
        # (3) caller-owned dicts
        for label, orig, saved in dicts:
            if orig != saved:
                self.viol('caller-dict-mutated|%s|%s' % (k, label),
                          '%s mutated the dict passed as %s: %r -> %r' % (
                              k, label, saved, orig))
        # (1) frame
        for i, (x, y) in enumerate(zip(before, after)):
            if x is None or y is None or i in allowed:
                continue
            if x != y:
                if k == 'render_schema' and _name_transition_ok(x, y):
                    continue
                rel = self._relation(i, op)
                self.viol('frame|%s|%s|%s' % (k, rel, _diff(x, y)),
                          '%s%r changed pool member %d (%s, %s) which it does '
                          'not name: %s' % (k, op[1:], i,
                          self.meta[i]['base'], rel, _diff(x, y)))
        self._coherence()
        self.snaps = after
        if new_idx is not None:
            self.snaps.append(snapshot(self.pool[new_idx])) \
                if len(self.snaps) < len(self.pool) else None

    def _coherence(self):
        """An observer that looked BEFORE a change (warm memo tables) must see
        what a fresh observer sees."""
        memos = [ComplexModelBase.get_flat_type_info,
                 ComplexModelBase.get_simple_type_info_with_prot,
                 ComplexModelBase.get_subclasses.__func__
                 if hasattr(ComplexModelBase.get_subclasses, '__func__')
                 else None]
        memos = [m for m in memos if m is not None and hasattr(m, 'memo')]

        def observe():
            out = []
            for i in self._live(('complex', 'array')):
                c = self.pool[i]
                try:
                    flat = list(c.get_flat_type_info(c).keys())
                except Exception as e:
                    flat = 'E:' + type(e).__name__
                try:
                    simple = list(c.get_simple_type_info(c).keys())
                except Exception as e:
                    simple = 'E:' + type(e).__name__
                try:
                    subs = sorted(x.__name__ for x in (c.get_subclasses()
                                                        or ()))
                except Exception as e:
                    subs = 'E:' + type(e).__name__
                out.append((i, flat, simple, subs))
            return out

        warm = observe()
        saved = [m.memo for m in memos]
        for m in memos:
            m.memo = {}
        try:
            cold = observe()
        finally:
            for m, d in zip(memos, saved):
                m.memo = d
        for (i, f1, s1, b1), (_, f2, s2, b2) in zip(warm, cold):
            if b1 != b2:
                self.viol('stale-cache|subclasses', 'member %d: cached '
                          'get_subclasses %r, fresh %r' % (i, b1, b2))
                break
            if f1 != f2:
                self.viol('stale-cache|flat_type_info', 'member %d: cached '
                          'get_flat_type_info %r, fresh %r' % (i, f1, f2))
                break
            if s1 != s2:
                self.viol('stale-cache|simple_type_info', 'member %d: cached '
                          'get_simple_type_info %r, fresh %r' % (i, s1, s2))
                break

    def _relation(self, i, op):
        """How member i relates to the operand of op (for the signature)."""
        src = None
        if len(op) > 1 and isinstance(op[1], int):
            src = getattr(self, '_last_target', None)
        if src is None:
            return 'unrelated'
        if i == src:
            return 'operand'
        if self.meta[i]['src'] == src:
            return 'derivative-of-operand'
        if self.meta[src]['src'] == i:
            return 'source-of-operand'
        if self._mentions(self.pool[i], [self.pool[src]]):
            return 'references-operand'
        if self._mentions(self.pool[src], [self.pool[i]]):
            return 'referenced-by-operand'
        return 'unrelated'

    # -- derivations -------------------------------------------------------------
    def _effect(self, k, i, new, overrides, ignore=()):
        """new member == source + overrides on the public attributes."""
        a = snapshot(self.pool[i])['attrs']
        b = snapshot(new)['attrs']
        overrides = dict(overrides)
        if 'pk' in overrides:
            overrides['primary_key'] = overrides.pop('pk')
        for k_ in ('autoincrement', 'server_default', 'doc'):
            overrides.pop(k_, None)      # live in sqla_column_args / Annotations
        ignore = tuple(ignore) + ('sqla_column_args',)
        for name in sorted(set(a) | set(b)):
            if name in ignore:
                continue
            want = _canon(overrides[name]) if name in overrides else a.get(name)
            if name == 'max_occurs' and overrides.get(name) in ('unbounded',):
                want = 'D:Infinity'
            if name in ('nillable', 'nullable') and ('nillable' in overrides
                                               or 'nullable' in overrides):
                want = _canon(overrides.get('nillable',
                                            overrides.get('nullable')))
            if name == 'pattern' and 'pattern' in overrides:
                want = overrides['pattern']
            if b.get(name) != want:
                self.viol('effect|%s|attrs.%s' % (k, name), '%s on member %d '
                          'gave %s=%r, expected %r (requested %r)' % (k, i,
                          name, b.get(name), want, overrides))

    def op_prim_customize(self, op, dicts):
        i = self._pick(op[1], ('prim',))
        if i is None:
            raise _Skip()
        self._last_target = i
        src = self.pool[i]
        attrs = self._fit_attrs(src, op[2])
        if not attrs:
            raise _Skip()
        saved = copy.deepcopy(attrs)
        new = src(**attrs)
        dicts.append(('kwargs', attrs, saved))
        self._effect('prim_customize', i, new, attrs,
                     ignore=('unicode_pattern', 'max_str_len'))
        self._twin_verdicts('prim_customize', i, new)
        if self._has_derivatives(i):
            self.nontrivial = True
        j = self._add(new, 'prim', i, 'customized', self.meta[i]['base'])
        return j, set()

    def op_recustomize(self, op, dicts):
        """Set a facet that an already customised primitive has been given
        before to another value (the type has been looked at in between: every
        step ends with a snapshot, verdicts included)."""
        cands = [i for i in self._live(('prim',))
                 if self.meta[i]['rel'] == 'customized']
        if not cands:
            raise _Skip()
        i = cands[op[1] % len(cands)]
        self._last_target = i
        src = self.pool[i]
        attrs = {}
        for name, alts in UNI_ATTRS + INT_ATTRS:
            if name in ('default', 'values'):
                continue
            cur = getattr(src.Attributes, name, None)
            base = dict(PRIMS).get(self.meta[i]['base'])
            if base is None or cur == getattr(base.Attributes, name, None):
                continue        # never set on this one
            other = [x for x in alts if x != cur]
            if other:
                attrs[name] = other[(op[1] >> 4) % len(other)]
        attrs = self._fit_attrs(src, attrs)
        if not attrs:
            raise _Skip()
        saved = copy.deepcopy(attrs)
        new = src(**attrs)
        dicts.append(('kwargs', attrs, saved))
        self._effect('recustomize', i, new, attrs,
                     ignore=('unicode_pattern', 'max_str_len'))
        self._twin_verdicts('recustomize', i, new)
        self.nontrivial = True
        j = self._add(new, 'prim', i, 'customized', self.meta[i]['base'])
        return j, set()

    FACETS = ('min_len', 'max_len', 'pattern', 'values', 'ge', 'gt', 'le',
              'lt', 'total_digits', 'fraction_digits', 'nillable',
              'nullable', 'min_occurs')

    def _twin_verdicts(self, k, i, new):
        """What a type accepts depends on its constraints, not on how it got
        them: a twin derived in ONE step from the builtin primitive, with the
        effective facets of `new`, that nobody has looked at yet must give the
        same verdicts on the probe values."""
        base = dict(PRIMS).get(self.meta[i]['base'])
        if base is None:
            return
        kw = {}
        for f in self.FACETS:
            v = getattr(new.Attributes, f, None)
            if v != getattr(base.Attributes, f, None):
                kw[f] = v
        try:
            twin = base(**kw) if kw else base
        except Exception:
            return
        a, b = snapshot(new).get('verdicts'), snapshot(twin).get('verdicts')
        if a != b:
            self.viol('effect|%s|verdicts-depend-on-history' % k, 'member %d '
                      'customised with the same facets %r as a fresh twin '
                      'gives other verdicts on the probe values: %r vs %r' % (
                          i, kw, a, b))

    def _fit_attrs(self, cls, attrs):
        out = {}
        for k, v in attrs.items():
            if k in ('ge', 'le', 'gt', 'lt') and not (
                    issubclass(cls, (Integer, Decimal, Double))):
                continue
            if k in ('min_len', 'max_len', 'pattern', 'values') and \
                                              not issubclass(cls, Unicode):
                continue
            if k == 'default':
                if issubclass(cls, Unicode) and not isinstance(v, str):
                    continue
                if issubclass(cls, (Integer,)) and not isinstance(v, int):
                    continue
                if not issubclass(cls, (Unicode, Integer)):
                    continue
            if k == 'values':
                v = list(v)
            out[k] = v
        return out

    def op_customize(self, op, dicts):
        i = self._pick(op[1])
        self._last_target = i
        src = self.pool[i]
        attrs = self._fit_attrs(src, op[2])
        attrs.pop('values', None)
        if not attrs:
            raise _Skip()
        saved = copy.deepcopy(attrs)
        new = src.customize(**attrs)
        dicts.append(('kwargs', attrs, saved))
        self._effect('customize', i, new, attrs,
                     ignore=('unicode_pattern', 'max_str_len'))
        if issubclass(src, ComplexModelBase) and self._mentions_self(src):
            # recursive structure: the snapshots cut the cycle at different
            # places for the two classes; compare the field names only
            if list(src._type_info.keys()) != list(new._type_info.keys()):
                self.viol('effect|customize|fields', 'customize() changed the '
                          'field names of a self-referencing class')
        elif issubclass(src, ComplexModelBase):
            a, b = snapshot(src), snapshot(new)
            if _strip_names(a).get('fields') != _strip_names(b).get('fields'):
                self.viol('effect|customize|fields', 'customize() changed the '
                          'fields: %s' % _diff(a.get('fields'),
                                               b.get('fields')))
        if self._has_derivatives(i):
            self.nontrivial = True
        j = self._add(new, self.meta[i]['kind'], i, 'customized',
                                                      self.meta[i]['base'])
        return j, set()

    def _child_dict(self, cls, spec):
        names = list(cls.get_flat_type_info(cls).keys())
        if not names:
            raise _Skip()
        d = {}
        future = {}
        for a, attrs in spec:
            if isinstance(a, list):
                fa = dict((k, v) for k, v in attrs.items()
                          if k in ('min_occurs', 'nillable', 'ge', 'le',
                                   'sub_name'))
                if fa:
                    nm = 'f%d' % (self.counter + a[1])
                    d[nm] = fa
                    future[nm] = fa
                continue
            fa = dict((k, v) for k, v in attrs.items()
                      if k in ('min_occurs', 'nillable', 'sub_name', 'exc',
                               'order', 'max_occurs'))
            if fa:
                d[names[a % len(names)]] = fa
        if not d:
            raise _Skip()
        self._future = future
        return d

    def op_child_attrs(self, op, dicts, key='child_attrs'):
        i = self._pick(op[1], ('complex',))
        if i is None:
            raise _Skip()
        self._last_target = i
        src = self.pool[i]
        self._future = {}
        d = self._child_dict(src, op[2])
        saved = copy.deepcopy(d)
        new = src.customize(**{key: d})
        dicts.append((key, d, copy.deepcopy(saved)))
        future = dict(self._future)
        for nm in future:
            saved.pop(nm, None)
        # effect: named children carry the attrs, the others are unchanged
        fa = src.get_flat_type_info(src)
        fb = new.get_flat_type_info(new)
        if list(fa.keys()) != list(fb.keys()):
            self.viol('effect|%s|field-order' % key, '%s changed the field '
                      'list %r -> %r' % (key, list(fa.keys()),
                                         list(fb.keys())))
        else:
            for name in fa:
                sa = _strip_names(snapshot(fa[name]))
                sb = _strip_names(snapshot(fb[name]))
                want = dict(saved.get(name, {}))
                if key == 'child_attrs_noexc':
                    want = dict(want)
                    want['exc'] = name not in saved and True or False
                for an, av in want.items():
                    got = sb['attrs'].get(an)
                    exp = _canon(av)
                    if an == 'max_occurs' and av == 'unbounded':
                        exp = 'D:Infinity'
                    if got != exp:
                        self.viol('effect|%s|attrs.%s' % (key, an),
                                  '%s: child %s has %s=%r, requested %r' % (
                                      key, name, an, got, av))
                for an in sa['attrs']:
                    if an in want or (an in ('nullable', 'nillable') and (
                            'nillable' in want or 'nullable' in want)):
                        continue
                    if sa['attrs'][an] != sb['attrs'].get(an):
                        self.viol('effect|%s|unrequested.%s' % (key, an),
                                  '%s: child %s changed %s %r -> %r without '
                                  'being asked' % (key, name, an,
                                  sa['attrs'][an], sb['attrs'].get(an)))
        self.nontrivial = True
        j = self._add(new, 'complex', i, 'customized', self.meta[i]['base'])
        for nm, fa in future.items():
            self.meta[j]['delayed'][nm] = copy.deepcopy(fa)
            self.fired['delayed_child_attrs'] = \
                                self.fired.get('delayed_child_attrs', 0) + 1
        if key == 'child_attrs_noexc':
            # replaces (does not merge with) what the source had
            self.meta[j]['delayed_all'] = {'exc': True}
        return j, set()

    def op_child_attrs_noexc(self, op, dicts):
        return self.op_child_attrs(op, dicts, key='child_attrs_noexc')

    def op_child_attrs_all(self, op, dicts):
        i = self._pick(op[1], ('complex',))
        if i is None:
            raise _Skip()
        self._last_target = i
        src = self.pool[i]
        d = dict((k, v) for k, v in op[2].items()
                 if k in ('min_occurs', 'nillable', 'exc', 'order'))
        if not d:
            raise _Skip()
        saved = copy.deepcopy(d)
        new = src.customize(child_attrs_all=d)
        dicts.append(('child_attrs_all', d, saved))
        fb = new.get_flat_type_info(new)
        fa = src.get_flat_type_info(src)
        if list(fa.keys()) != list(fb.keys()):
            self.viol('effect|child_attrs_all|field-order', 'child_attrs_all '
                      'changed the field list')
        for name, ft in fb.items():
            sb = snapshot(ft)['attrs']
            for an, av in saved.items():
                if sb.get(an) != _canon(av) and not (
                        an == 'nillable' and sb.get('nullable') == av):
                    self.viol('effect|child_attrs_all|attrs.%s' % an,
                              'child_attrs_all: child %s has %s=%r, requested '
                              '%r' % (name, an, sb.get(an), av))
        self.nontrivial = True
        j = self._add(new, 'complex', i, 'customized', self.meta[i]['base'])
        self.meta[j]['delayed_all'] = dict(saved)    # replaces, no merge
        return j, set()

    def op_array(self, op, dicts):
        i = self._pick(op[1])
        self._last_target = i
        src = self.pool[i]
        variant = op[2]
        if variant == 'plain':
            new = Array(src)
        elif variant == 'unwrapped':
            new = Array(src, wrapped=False)
        elif variant == 'unwrapped_n':
            new = Array(src, wrapped=False, max_occurs=3)
        elif variant == 'member_name':
            new = Array(src, member_name='item')
        else:
            # serializer_attrs customises the member of an EXISTING array type
            if not (issubclass(src, Array) and len(src._type_info) == 1):
                raise _Skip()
            d = {'min_occurs': 1}
            saved = dict(d)
            new = src.customize(serializer_attrs=d)
            dicts.append(('serializer_attrs', d, saved))
            (mk, mv), = new._type_info.items()
            if mv.Attributes.min_occurs != 1:
                self.viol('effect|array|serializer_attrs', 'serializer_attrs '
                          'not applied to the member: min_occurs=%r' %
                          mv.Attributes.min_occurs)
            (ok_, ov), = src._type_info.items()
            if mk != ok_:
                self.viol('effect|array|serializer_attrs-member-name',
                          'serializer_attrs renamed the member %r -> %r' % (
                                                               ok_, mk))
            if new.get_type_name() != src.get_type_name():
                self.viol('effect|array|serializer_attrs-type-name',
                          'serializer_attrs changed the array type name %r -> '
                          '%r' % (src.get_type_name(), new.get_type_name()))
            j = self._add(new, 'array', i, 'customized', self.meta[i]['base'])
            self.nontrivial = True
            return j, set()
        if variant == 'unwrapped_n':
            self._effect('array-unwrapped', i, new, {'max_occurs': 3},
                         ignore=('unicode_pattern', 'max_str_len'))
            kind = self.meta[i]['kind']
        elif variant == 'unwrapped':
            self._effect('array-unwrapped', i, new,
                         {'max_occurs': 'unbounded'}
                         if src.Attributes.max_occurs == 1 else {},
                         ignore=('unicode_pattern', 'max_str_len'))
            kind = self.meta[i]['kind']
        else:
            ti = new._type_info
            if len(ti) != 1:
                self.viol('effect|array|members', 'Array has %d members' %
                                                                    len(ti))
            else:
                (mk, mv), = ti.items()
                sa = _strip_names(snapshot(src))
                sb = _strip_names(snapshot(mv))
                for an in sa['attrs']:
                    if an in ('max_occurs', 'min_occurs'):
                        continue
                    if sa['attrs'][an] != sb['attrs'].get(an):
                        self.viol('effect|array|member.%s' % an, 'Array(T): '
                                  'member type differs from T in %s: %r -> %r'
                                  % (an, sa['attrs'][an],
                                     sb['attrs'].get(an)))
                if variant == 'member_name' and \
                        src.get_type_name() is not ModelBase.Empty and \
                        mk != 'item':
                    self.viol('effect|array|member_name', 'member_name '
                              'ignored: %r' % mk)
            kind = 'array'
        if self._has_derivatives(i):
            self.nontrivial = True
        # Array(T, wrapped=False) is T.customize(...): a variant of T
        j = self._add(new, kind, i, 'customized' if variant in ('unwrapped',
                      'unwrapped_n') else 'array-of', self.meta[i]['base'])
        return j, set()

    def op_iterable(self, op, dicts):
        i = self._pick(op[1])
        self._last_target = i
        new = Iterable(self.pool[i])
        j = self._add(new, 'array', i, 'array-of', self.meta[i]['base'])
        return j, set()

    def op_mandatory(self, op, dicts):
        i = self._pick(op[1])
        self._last_target = i
        src = self.pool[i]
        new = Mandatory(src)
        want = {'min_occurs': 1, 'nillable': False}
        if issubclass(src, Unicode):
            # "mandatory" must not LOWER what the source already demanded
            want['min_len'] = max(1, src.Attributes.min_len)
        self._effect('mandatory', i, new, want,
                     ignore=('unicode_pattern', 'max_str_len'))
        if issubclass(src, Array):
            (mk, mv), = new._type_info.items()
            if mv.Attributes.min_occurs < 1:
                self.viol('effect|mandatory|array-member', 'Mandatory(Array): '
                          'member min_occurs=%r' % mv.Attributes.min_occurs)
        self.nontrivial = True
        j = self._add(new, self.meta[i]['kind'], i, 'customized',
                                                      self.meta[i]['base'])
        return j, set()

    def op_subclass(self, op, dicts):
        i = self._pick(op[1], ('complex',))
        if i is None:
            raise _Skip()
        self._last_target = i
        src = self.pool[i]
        if getattr(src, '__orig__', None) is not None:
            # spyne refuses to inherit from a customised class (documented)
            raise _Skip()
        self.counter += 1
        fields = []
        for n, t in enumerate(op[2]):
            fields.append(('s%d_%d' % (self.counter, n),
                           self.pool[self._pick(t)]))
        new = type('S%d' % self.counter, (src,), {
            '__namespace__': 'ns.c', '_type_info': list(fields)})
        want = list(src.get_flat_type_info(src).keys()) + \
                                                   [f for f, _ in fields]
        got = list(new.get_flat_type_info(new).keys())
        if got != want:
            self.viol('order|subclass', 'subclass fields %r, expected parents '
                      'first then declaration order %r' % (got, want))
        j = self._add(new, 'complex', i, 'subclass', 'S%d' % self.counter)
        return j, set()

    def op_ordered_class(self, op, dicts):
        """A class several of whose fields carry an explicit `order`.  What the
        resulting order must be is spyne's business; that it is the same under
        every hash seed is checked by the environment replays."""
        self.counter += 1
        fields = []
        for n, o in enumerate(op[2]):
            t = Unicode if n % 2 else Integer
            if o is not None:
                t = t(order=o)
            fields.append(('o%d_%s' % (self.counter, 'abcdefgh'[n]), t))
        new = type('O%d' % self.counter, (ComplexModel,), {
            '__namespace__': 'ns.c', '_type_info': list(fields)})
        self._last_target = None
        j = self._add(new, 'complex', None, 'declared', 'O%d' % self.counter)
        return j, set()

    def _evolve(self, op, insert):
        i = self._pick(op[1], ('complex',))
        if i is None:
            raise _Skip()
        self._last_target = i
        cls = self.pool[i]
        ft = self.pool[self._pick(op[2])]
        if ft is not cls and self._mentions(ft, [cls]):
            raise _Skip()       # no mutually containing structures
        if ft is cls and op[2] % 3:
            raise _Skip()       # a self-typed field only now and then
        self.counter += 1
        name = 'f%d' % self.counter
        # who must see the new field: the class, its live customised variants
        # (when it is the original), its subclasses -- and whoever refers to
        # any of those
        direct = [i]
        orig = getattr(cls, '__orig__', None)
        if orig is None:
            for j, c in enumerate(self.pool):
                if self.meta[j]['alive'] and getattr(c, '__orig__',
                                                      None) is cls:
                    direct.append(j)
        before_flat = dict((j, list(self.pool[j].get_flat_type_info(
                            self.pool[j]).keys())) for j in direct)
        own_before = dict((j, list(self.pool[j]._type_info.keys()))
                          for j in direct)
        if insert:
            idx = op[3]
            n_own = len(cls._type_info)
            if idx > n_own:
                idx = n_own
            if idx < -n_own:
                idx = -n_own
            cls.insert_field(idx, name, ft)
        else:
            cls.append_field(name, ft)
        base_attrs = snapshot(ft)['attrs']
        for j in direct:
            c = self.pool[j]
            got_t = c._type_info.get(name)
            if got_t is not None:
                want = dict(base_attrs)
                over = dict(self.meta[j].get('delayed_all') or {})
                dl = self.meta[j].get('delayed', {})
                if name in dl:
                    over.update(dl[name])
                    if insert:
                        dl.pop(name)     # insert_field consumes the entry
                for an, av in over.items():
                    want[an] = 'D:Infinity' if (an == 'max_occurs' and
                                    av == 'unbounded') else _canon(av)
                    if an == 'nillable':
                        want['nullable'] = _canon(av)
                got = snapshot(got_t)['attrs']
                for an in sorted(want):
                    if an in ('unicode_pattern', 'max_str_len'):
                        continue
                    if got.get(an) != want[an]:
                        rel = 'class' if j == i else 'variant'
                        self.viol('evolve|new-field-attrs|%s|%s' % (rel, an),
                                  '%s: new field %s of %s %d has %s=%r, '
                                  'expected %r (type attrs + this variant\'s '
                                  'own delayed child attrs %r)' % (op[0],
                                  name, rel, j, an, got.get(an), want[an],
                                  over))
                        break
            own = list(c._type_info.keys())
            exp = list(own_before[j])
            if insert and idx < 0 and own_before[j] != own_before[i]:
                # a variant that has fields of its own: "from the end" has no
                # defined meaning relative to the class; only presence counts
                if name not in own:
                    self.viol('evolve|insert_field|variant-missing', 'variant '
                              '%d did not get field %s' % (j, name))
                continue
            if insert:
                # same position as in the class itself (list.insert semantics
                # relative to the fields the class had), in every variant
                pos = idx if idx >= 0 else max(0, n_own + idx)
                exp.insert(min(pos, len(exp)), name)
            else:
                exp.append(name)
            if own != exp:
                rel = 'class' if j == i else 'variant'
                self.viol('evolve|%s|%s' % ('insert_field' if insert else
                          'append_field', rel), '%s: %s %d has fields %r, '
                          'expected %r' % (op[0], rel, j, own, exp))
        allowed = set()
        for j in direct:
            allowed |= self._refs(j)
        # subclasses: parents first
        for j in self._live(('complex',)):
            c = self.pool[j]
            ext = getattr(c, '__extends__', None)
            is_sub = False
            while ext is not None:
                if ext is cls:
                    is_sub = True
                    break
                ext = getattr(ext, '__extends__', None)
            # ... or was DECLARED `class c(cls)` by this history, whatever
            # spyne recorded
            k_ = j
            while not is_sub and self.meta[k_]['rel'] == 'subclass':
                k_ = self.meta[k_]['src']
                if k_ == i:
                    is_sub = True
            if is_sub:
                flat = list(c.get_flat_type_info(c).keys())
                if name not in flat:
                    self.viol('evolve|subclass-missing', 'subclass %d does not '
                              'see field %s added to its parent' % (j, name))
                elif flat.index(name) >= min([flat.index(f) for f in
                                    c._type_info.keys() if f in flat] or
                                    [len(flat)]) and not insert:
                    self.viol('order|parents-first', 'subclass %d lists the '
                              'parent\'s new field %s after its own fields: '
                              '%r' % (j, name, flat))
        self.nontrivial = True
        return None, allowed

    def op_append_field(self, op, dicts):
        return self._evolve(op, False)

    def op_insert_field(self, op, dicts):
        return self._evolve(op, True)

    # -- environment -----------------------------------------------------------
    def op_gc_collect(self, op, dicts):
        gc.collect()
        return None, set()

    def op_drop_reference(self, op, dicts):
        cands = [i for i in self._live() if self.meta[i]['rel'] ==
                 'customized' and not self._has_derivatives(i) and
                 not any(self._mentions(self.pool[j], [self.pool[i]])
                         for j in self._live() if j != i)]
        if not cands:
            raise _Skip()
        i = cands[op[1] % len(cands)]
        self.meta[i]['alive'] = False
        self.pool[i] = None
        self.snaps[i] = None
        gc.collect()
        return None, set()

    def op_touch_caches(self, op, dicts):
        for i in self._live(('complex', 'array')):
            c = self.pool[i]
            c.get_flat_type_info(c)
            try:
                c.get_simple_type_info(c)
            except Exception:
                pass
            c.get_subclasses()
        return None, set()

    # -- end of history ----------------------------------------------------------
    def finish(self):
        """Field order in the rendered schema sequence equals the declaration
        order (own _type_info order; parents come through xs:extension)."""
        self.step += 1
        cands = [i for i in self._live(('complex',))
                 if self.pool[i].get_type_name() is not ModelBase.Empty]
        # an observer that has looked at everything before the schema is built
        # (registering with an interface names the anonymous types)
        self.op_touch_caches(None, None)
        for i in cands[-2:]:
            cls = self.pool[i]
            own = list(cls._type_info.keys())
            try:
                seq = self._render(cls)
            except Exception as e:
                self.fired['render_failed'] = \
                                      self.fired.get('render_failed', 0) + 1
                continue
            self.fired['render_schema'] = self.fired.get('render_schema',
                                                         0) + 1
            if seq is None:
                continue
            got = [n for n in seq if n in own]
            exp = [n for n in own if n in seq]
            if got != exp:
                self.viol('order|schema', 'schema sequence of member %d is %r,'
                          ' declaration order %r' % (i, got, exp))
        self._coherence()

    def _render(self, cls):
        fn = rpc(_returns=cls)(lambda ctx: None)
        svc = type('RenderSvc', (Service,), {'get': fn})
        app = Application([svc], 'ns.render', in_protocol=XmlDocument(),
                          out_protocol=JsonDocument())
        docs = app.interface.docs.xml_schema
        docs.build_interface_document()
        XS = '{http://www.w3.org/2001/XMLSchema}'
        for pref, schema in docs.schema_dict.items():
            for ct in schema.findall(XS + 'complexType'):
                if ct.get('name') == cls.get_type_name() and \
                        schema.get('targetNamespace') == cls.get_namespace():
                    seqs = ct.findall(XS + 'sequence') + ct.findall(
                        '%scomplexContent/%sextension/%ssequence' % (XS, XS,
                                                                      XS))
                    names = []
                    for sq in seqs:
                        for el in sq.findall(XS + 'element'):
                            names.append(el.get('name'))
                    return names
        return None


class _Skip(Exception):
    pass


def run_history(seed, ops=None):
    gc_was = gc.isenabled()
    gc.disable()
    try:
        m = Machine(seed)
        ops = ops if ops is not None else draw_ops(seed)
        for op in ops:
            m.apply(op)
        m.finish()
        final = digest([s for s in m.snaps])
        return m, ops, final
    finally:
        if gc_was:
            gc.enable()


def run_case(case):
    if case['kind'] == 'env':
        return run_env(case)
    m, ops, final = run_history(case['seed'], case.get('ops'))
    kinds = [k for k in m.kinds if k != 'skip']
    return {
        'violations': m.V,
        'fired': m.fired,
        'probes': {'pool_size': len(m.pool),
                   'variant_dropped_then_gc': m.fired.get('drop_reference',
                                                          0)},
        'signature': digest(kinds),
        'nontrivial': m.nontrivial,
        'steps': len(ops),
        'simtime': 0.0,
        'digest': final,
        'summary': {'ops': kinds[:25], 'pool': len(m.pool)},
    }


def run_env(case):
    """Replay a batch of histories in a child interpreter with another hash
    seed and heap layout; final snapshots must be identical."""
    mine = {}
    for hs in case['hist_seeds']:
        m, ops, final = run_history(hs)
        mine[str(hs)] = [final, sorted(v['sig'] for v in m.V)]
    code = ('import sys, json; sys.path.insert(0, %r)\n'
            'pad = [type("Pad%%d" %% i, (object,), {}) for i in range(%d)]\n'
            'from props import c15\n'
            'out = {}\n'
            'for hs in %r:\n'
            '    m, ops, final = c15.run_history(hs)\n'
            '    out[str(hs)] = [final, sorted(v["sig"] for v in m.V)]\n'
            'json.dump(out, sys.stdout)\n' % (VERIF, case['pad'],
                                              case['hist_seeds']))
    p = run_child(code, case['hashseed'])
    V = []
    try:
        theirs = json.loads(p.stdout.decode())
    except Exception:
        raise RuntimeError('env child failed: %s' % p.stderr.decode()[-500:])
    n_diff = 0
    for hs in case['hist_seeds']:
        if mine[str(hs)] != theirs.get(str(hs)):
            n_diff += 1
            V.append({'sig': 'env-dependent|history', 'what': 'history %d '
                      'ends in different snapshots / verdicts under '
                      'PYTHONHASHSEED=%d heap pad %d: %r vs %r' % (hs,
                      case['hashseed'], case['pad'], mine[str(hs)],
                      theirs.get(str(hs)))})
            break
    return {
        'violations': V,
        'fired': {'hash_seed_replay': len(case['hist_seeds']),
                  'heap_pad': 1 if case['pad'] else 0},
        'probes': {},
        'signature': digest(['env', case['hashseed'] % 7, case['pad'] % 5]),
        'nontrivial': True,
        'steps': len(case['hist_seeds']),
        'simtime': 0.0,
        'digest': digest(mine),
        'summary': {'histories': len(case['hist_seeds']),
                    'hashseed': case['hashseed'], 'pad': case['pad']},
    }


def minimize(case, sig):
    if case['kind'] != 'history':
        return case
    m, ops, _ = run_history(case['seed'], case.get('ops'))

    def test(sub):
        try:
            mm, _, _ = run_history(case['seed'], sub)
        except Exception:
            return False
        return any(v['sig'] == sig for v in mm.V)

    if not test(ops):
        return case
    small = ddmin(ops, test)
    out = dict(case)
    out['ops'] = small
    return out
