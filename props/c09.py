"""C09 — faults arrive intact, are classified correctly and never leak internals.

Fault injected: an exception raised at a user-code site (function body, k-th
generator item, method_call listener, method_return_object listener); the site is
the searched dimension, payloads are sampled.  Routes: bare ServerBase pipeline,
WsgiApplication through the gateway, loopback spyne client (SOAP family).
Oracle: decoded fault == raised fault; HTTP status table; non-Fault => generic
Server fault and no secret token / class name / 'Traceback' in any response
byte (DESIGN.md section 4, C09)."""

from sim import bootstrap
bootstrap()

from sim.rng import Streams, derive
from sim.universe import (Universe, make_protocol, validators_for,
                 WsgiApplication, PROTOCOLS, XML_FAMILY, SOAP_FAMILY, Ctl,
                 Request, CONTENT_TYPES)
from sim.workload import build_request, ExcSpec
from sim.gateway import call_wsgi, Stamp
from sim.drive import serverbase_call, make_server
from sim import canon
from sim.runner import digest

from spyne.client import RemoteProcedureBase
from spyne import Fault

ID = 'C09'
LEVEL = 'fault_enumeration'
BUDGET = {'quick': 240, 'thorough': 2400}
BLOCK = 250
RULE = ('one run = one call in which user code raises one exception at one '
        'site; cells (site x exception kind x output protocol x route) are '
        'swept cyclically, payload (code with dotted sub-codes, Unicode '
        'message, nested detail, secret token), method, validator and chunking '
        'are drawn from the run PRNG. Every run is non-trivial (an exception '
        'is always injected); distinct = distinct (site, kind, code, message, '
        'detail shape, in/out protocol, route, chunked) tuples.')
COMPONENTS = {
    'real': ['spyne.application.Application.process_request (exception '
             'funnel)', 'spyne.model.fault', 'spyne.error', 'spyne.protocol.* '
             'fault serialisers (xml, soap11, soap12, dictdoc hier, msgpack-'
             'rpc, http-rpc)', 'spyne.server.wsgi.WsgiApplication error path',
             'spyne.client.RemoteProcedureBase (loopback route)'],
    'stub': ['WSGI gateway / transport around ServerBase', 'loopback client '
             'transport (in-process call into the gateway)', 'user functions '
             'and listeners that raise on command', 'reference fault decoders '
             '(sim.canon)'],
}
ASSUMPTIONS = [
    'payloads (codes, messages, details) are a seeded sample, not enumerated',
    'SOAP 1.2: first code segment restricted to Client/Server (closed '
    'vocabulary, per the property)',
    'a generator failing after its first item under a lazily serialising '
    'protocol with chunked=True strikes after start_response: only the '
    'no-leak clause is asserted there',
    'HttpRpc text/plain faults have no detail slot; detail is compared only '
    'where the wire format has one',
    'XML 1.0 cannot represent C0 control characters: for the XML protocols '
    'the message is expected with U+FFFD in their place',
]

OUTS = ['xml', 'soap11', 'soap12', 'json', 'yaml', 'msgpack', 'msgpackrpc',
        'httprpc']
IN_FOR_OUT = {'xml': 'xml', 'soap11': 'soap11', 'soap12': 'soap12',
              'json': 'json', 'yaml': 'yaml', 'msgpack': 'msgpack',
              'msgpackrpc': 'msgpackrpc', 'httprpc': 'json'}
SITES = ['fn', 'l_call', 'l_ret', 'gen0', 'gen1', 'genend']
ROUTES = ['wsgi', 'sb', 'client']
LAZY = ('json', 'yaml', 'msgpack', 'msgpackrpc')
# protocols whose spyne client can parse a response (the dict-document clients
# answer every call with None / 404 and are not usable)
CLIENT_PROTS = ('soap11', 'soap12', 'xml', 'msgpackrpc')
RETURN_MARK = u'nothing to see'
# (variant of an unrepresentable detail, output protocol) for which the tree
# answers with the generic fault instead of the raised code and message
AWKWARD_DEGRADES = set(
    [(v, o) for v in ('bigint', 'set', 'obj-leaf')
            for o in ('msgpack', 'msgpackrpc')] +
    [('obj-leaf', o) for o in ('json', 'yaml')] +
    [('detail-list', o) for o in ('xml', 'soap11', 'soap12')] +
    [('detail-str', 'soap12')])


def gen_cases(tier, verif_seed):
    n = {'quick': 20000, 'thorough': 500000}[tier]
    cells = [(s, k, o, r) for s in SITES for k in ExcSpec.KINDS for o in OUTS
                                                           for r in ROUTES]
    order = list(range(len(cells)))
    Streams(derive(ID, verif_seed, 'order'))['o'].shuffle(order)
    for i in range(n):
        seed = derive(ID, verif_seed, i) & 0xffffffffffff
        rng = Streams(seed)['faults']
        site, kind, out, route = cells[order[i % len(cells)]]
        if route == 'client' and out not in CLIENT_PROTS:
            route = 'wsgi'
        if site.startswith('gen') and route == 'sb':
            route = 'wsgi'
        if kind == 'fault_awkward' and route in ('sb', 'client'):
            # the bare pipeline leaves a failing serialisation (also of a
            # fault) to its caller, the transport: only transports are judged
            route = 'wsgi'
        in_prot = IN_FOR_OUT[out]
        if rng.random() < .2 and route == 'wsgi' and out != 'httprpc':
            in_prot = 'httprpc'
        exc = ExcSpec.draw(rng, kind, seed)
        if out == 'soap12' and 'code' in exc and \
                        exc['code'].split('.')[0] not in ('Client', 'Server'):
            exc['code'] = rng.choice(('Client.', 'Server.')) + exc['code']
        yield {
            'seed': seed, 'useed': derive(seed, 'universe') & 0xffffffff,
            'site': site, 'exc': exc, 'in_prot': in_prot, 'out_prot': out,
            'route': route,
            'validator': rng.choice(validators_for(in_prot)),
            'chunked': rng.random() < .5,
            'level': rng.choice(['app', 'method', 'service']),
            'method': rng.choice(['noargs', 'multi', 'echo', 'sub', 'fail']),
        }


def _make_loopback(wsgi, in_prot, holder):
    class Loopback(RemoteProcedureBase):
        def __call__(self, *args, **kwargs):
            self.ctx, = self.contexts
            self.get_out_object(self.ctx, args, kwargs)
            self.get_out_string(self.ctx)
            body = b''.join(self.ctx.out_string)
            req = Request('POST', '/', '', CONTENT_TYPES[in_prot], body,
                                                           ('client', 'call'))
            o = call_wsgi(wsgi, req)
            holder['outcome'] = o
            self.ctx.in_string = [o.body]
            self.get_in_object(self.ctx)
            return self.ctx
    return Loopback


def run_case(case):
    ctl = Ctl()
    uni = Universe(Streams(case['useed'])['universe'], ctl=ctl)
    in_prot, out_prot = case['in_prot'], case['out_prot']
    site, exc, route = case['site'], case['exc'], case['route']
    app = uni.make_app(make_protocol(in_prot, case['validator']),
                                                   make_protocol(out_prot))
    ws = Streams(case['seed'])['workload']
    mk = lambda: ExcSpec.make(exc)
    raised = []

    def mk_rec():
        e = mk()
        raised.append(e)
        return e

    method = case['method']
    if site == 'fn':
        ctl.inject['fn'] = mk_rec
        rclass = ['ok', method]
    elif site in ('l_call', 'l_ret'):
        ev = 'method_call' if site == 'l_call' else 'method_return_object'

        def listener(ctx):
            raise mk_rec()
        if method == 'fail':
            method = 'noargs'
        lvl = case['level']
        if lvl == 'app':
            app.event_manager.add_listener(ev, listener)
        elif lvl == 'method':
            uni.method_evmgr.add_listener(ev, listener)
        else:
            (uni.sub_service if method == 'sub' else uni.service) \
                                    .event_manager.add_listener(ev, listener)
        rclass = ['ok', method]
    else:
        k = {'gen0': 0, 'gen1': 1, 'genend': 'end'}[site]
        n = 2
        ctl.gen_len = n
        ctl.inject['gen:%s' % k] = mk_rec
        rclass = ['gen', n]
        method = 'gen'

    info = {'status': None, 'headers': None, 'client_error': None}
    if route == 'sb':
        req = build_request(uni, in_prot, rclass, ws)
        o = serverbase_call(make_server(app), req.body)
        info['exc'], info['where'] = o.exc, o.exc_stage
        body = o.body
    elif route == 'wsgi':
        req = build_request(uni, in_prot, rclass, ws)
        wsgi = WsgiApplication(app, chunked=case['chunked'])
        o = call_wsgi(wsgi, req)
        info['exc'], info['where'] = o.exc, o.exc_where
        info['status'], info['headers'] = o.status, o.headers
        body = o.body if o.body is not None else b''
        info['chunks_before_exc'] = len(o.chunks)
    else:
        wsgi = WsgiApplication(app, chunked=case['chunked'])
        capp = uni.make_app(make_protocol(in_prot), make_protocol(in_prot))
        holder = {}
        Loop = _make_loopback(wsgi, in_prot, holder)
        args = uni.gen_args(ws, method) if rclass[0] == 'ok' else \
                                                   {'n': 2, 'tag': u'g'}
        m = uni.methods[method]
        try:
            proc = Loop('http://sim.invalid/', capp, method)
            # client-side natives: our plain-data args need conversion only
            # for complex values; use simple methods on this route
            cctx = proc(*[_client_native(uni, sp, args.get(an))
                                                    for an, sp in m.args])
            info['exc'] = None
            info['client_error'] = cctx.in_error
            info['client_ctx'] = cctx
        except Exception as e:
            info['exc'], info['where'] = e, 'client'
        o = holder.get('outcome')
        body = o.body if o is not None and o.body is not None else b''
        if o is not None:
            info['status'], info['headers'] = o.status, o.headers
            if o.exc is not None:
                # the server side failed first: report that
                info['exc'], info['where'] = o.exc, o.exc_where
    return judge(case, uni, info, body, raised)


def _client_native(uni, spec, v):
    if v is None:
        return None
    if spec.kind == 'complex':
        return spec.cls(**dict((fn, _client_native(uni, fs, v.get(fn)))
                                        for fn, fs in spec.all_fields()))
    if spec.kind == 'array':
        return [_client_native(uni, spec.item, x) for x in v]
    if spec.name == 'bytes':
        return [v]
    if spec.name == 'dec':
        import decimal
        return decimal.Decimal(v)
    if spec.name == 'dur':
        import datetime
        return datetime.timedelta(days=v[0], seconds=v[1])
    if spec.name == 'uuid':
        import uuid
        return uuid.UUID(v)
    return v


def judge(case, uni, info, body, raised):
    V = []
    out_prot, site, route, exc = (case['out_prot'], case['site'],
                                  case['route'], case['exc'])
    is_fault = ExcSpec.is_fault(exc)
    fam = ('soap' if out_prot in SOAP_FAMILY else out_prot)
    where = 'site=%s|route=%s|out=%s' % (
        'gen' if site.startswith('gen') else site, route, fam)
    ctx_txt = '[site=%s kind=%s route=%s in=%s out=%s chunked=%s]' % (site,
        exc['kind'], route, case['in_prot'], out_prot, case['chunked'])

    def viol(edge, what):
        V.append({'sig': '%s|%s' % (edge, where), 'what': what + ' ' + ctx_txt})

    if not raised:
        # the injection site was not reached (e.g. HttpRpc cannot serialise a
        # sequence and gives up before the generator's last item): nothing was
        # raised, so nothing to judge.  Counted as a probe.
        r = _result(case, V, info, None)
        r['nontrivial'] = False
        r['probes']['site_not_reached'] = 1
        return r
    late = (site in ('gen1', 'genend') and out_prot in LAZY + ('httprpc',)
            and route == 'wsgi' and case['chunked'])

    # ---- (3) no leak, always ------------------------------------------------
    hay = [body or b'']
    if info.get('status'):
        hay.append(str(info['status']).encode('utf8', 'replace'))
    for h in (info.get('headers') or []):
        hay.append(repr(h).encode('utf8', 'replace'))
    hay = b'\n'.join(hay)
    if not is_fault:
        needles = [exc['secret'], type(raised[0]).__name__, 'Traceback']
        for n in needles:
            if n.encode() in hay:
                viol('leak:%s' % ('secret' if n == exc['secret'] else n),
                     'response leaks %r of a non-Fault exception' % n)
                break

    if info.get('exc') is not None:
        e = info['exc']
        if late and e is raised[0]:
            return _result(case, V, info, None)     # mid-stream failure
        if route == 'client' and isinstance(e, Fault):
            pass        # (clients may raise the decoded fault; not used)
        site_ = canon.exc_site(e)
        V.append({'sig': 'escaped|%s|%s' % (type(e).__name__, site_),
                  'what': 'exception %s (%s) escaped at %s (%s) %s' % (
                      type(e).__name__, canon.mask(str(e))[:120], site_,
                      info.get('where'), ctx_txt)})
        return _result(case, V, info, None)
    if late:
        return _result(case, V, info, None)

    # ---- decode ---------------------------------------------------------------
    try:
        if out_prot == 'httprpc':
            got = canon.decode_httprpc_fault(body)
            kind = 'fault' if got else 'normal'
        else:
            kind, got = canon.decode_fault(out_prot, body)
    except canon.Undecodable as e:
        viol('undecodable', 'response is not a well-formed %s document: %s' %
                                                   (out_prot, str(e)[:120]))
        return _result(case, V, info, None)
    if kind != 'fault':
        viol('no-fault', 'user code raised %s but the response is not a fault'
                                                     % exc['kind'])
        return _result(case, V, info, None)
    code, string, detail = got
    if ExcSpec.is_awkward(exc):
        # the payload may be unrepresentable in this protocol: a well-formed
        # fault in the raised code's family or the generic Server fault is all
        # that can be asked for (plus: nothing escaped, checked above)
        fam_ok = (code == exc['code'] or code == 'Server' or
                  (isinstance(code, str) and
                   code.split('.')[0] == exc['code'].split('.')[0]))
        if not fam_ok:
            viol('awkward-code', 'unrepresentable fault payload (%s) answered '
                 'with code %r' % (exc['variant'], got[0]))
        # where only the detail is out of the protocol's reach, code and
        # message are ordinary and arrive as raised (the detail is excused);
        # the cells listed in AWKWARD_DEGRADES are the ones where the
        # serialiser of the tree cannot go on after meeting the payload
        v = exc['variant']
        if fam_ok and v not in ('msg-ctl-only', 'bytes-msg') and \
                (v, out_prot) not in AWKWARD_DEGRADES and \
                not (out_prot == 'httprpc' and site.startswith('gen')):
            if code != exc['code']:
                viol('awkward-code-lost', 'fault %r with an unrepresentable '
                     'detail (%s) arrived with code %r' % (exc['code'], v,
                                                           code))
            elif (string or '') != exc['msg']:
                viol('awkward-string-lost', 'fault with an unrepresentable '
                     'detail (%s): message %r arrived as %r' % (v, exc['msg'],
                                                                string))
        st = (info.get('status') or '')[:1]
        if route in ('wsgi', 'client') and st not in ('4', '5'):
            viol('awkward-status', 'unrepresentable fault payload (%s) '
                 'answered with status %r' % (exc['variant'],
                                              info.get('status')))
        return _result(case, V, info, got)
    want = ExcSpec.expected(exc)
    if out_prot in XML_FAMILY and want[1]:
        # XML 1.0 cannot carry these at all: U+FFFD in their place is as
        # intact as the message can arrive
        import re
        want = (want[0], re.sub(u'[\x00-\x08\x0b\x0c\x0e-\x1f]', u'\ufffd',
                                want[1]), want[2])
    code, string, detail = got
    if code != want[0]:
        viol('code', 'fault code %r arrived as %r' % (want[0], code))
    if (string or '') != (want[1] or ''):
        viol('string', 'fault string %r arrived as %r' % (want[1], string))
    if out_prot == 'httprpc':
        # the text/plain fault form of HttpRpc ("code\n\nstring") has no place
        # for the detail: one signature for the whole protocol
        if _norm_detail(want[2]) is not None:
            V.append({'sig': 'detail-dropped|out=httprpc', 'what': 'HttpRpc '
                      'fault responses carry code and message only; the detail '
                      '%r is not sent %s' % (want[2], ctx_txt)})
    elif _norm_detail(detail) != _norm_detail(want[2]):
        viol('detail', 'fault detail %r arrived as %r' % (want[2], detail))
    # return value not sent
    if site == 'l_ret' and case['method'] in ('noargs', 'fail') and \
                                      RETURN_MARK.encode() in (body or b''):
        viol('return-value-sent', 'the method\'s return value is in the fault '
                                                                 'response')
    # ---- (2) HTTP status -------------------------------------------------------
    if route in ('wsgi', 'client'):
        want_status = ExcSpec.expected_http(exc, out_prot)
        got_status = (info.get('status') or '')[:3]
        if got_status != want_status:
            viol('status:%s->%s' % (want_status, got_status), 'HTTP status %r '
                 'for fault %r; documented: %s' % (info.get('status'),
                                                    want[0], want_status))
    # ---- (4) loopback client ---------------------------------------------------
    if route == 'client':
        ce = info.get('client_error')
        if ce is None:
            viol('client-no-error', 'loopback client did not set ctx.in_error')
        else:
            ccode = ce.faultcode
            if isinstance(ccode, str) and ':' in ccode and \
                    ccode.split(':', 1)[0] in ('soap11env', 'soap12env',
                                               'senv'):
                ccode = ccode.split(':', 1)[1]
            if out_prot == 'soap12' and isinstance(ccode, str):
                parts = ccode.split('.')
                p0 = parts[0].split(':')[-1]
                parts[0] = {'Sender': 'Client', 'Receiver': 'Server'}.get(
                                                                   p0, p0)
                ccode = '.'.join(parts)
            if ccode != want[0]:
                viol('client-code', 'client ctx.in_error.faultcode %r, raised '
                                        '%r' % (ce.faultcode, want[0]))
            if (ce.faultstring or '') != (want[1] or ''):
                viol('client-string', 'client ctx.in_error.faultstring %r, '
                                     'raised %r' % (ce.faultstring, want[1]))
            cdet = ce.detail
            if cdet is not None and not isinstance(cdet, (dict, str)):
                cdet = canon._detail_el(cdet)
            if _norm_detail(cdet) != _norm_detail(want[2]):
                viol('client-detail', 'client ctx.in_error.detail %r, raised '
                                                 '%r' % (cdet, want[2]))
    return _result(case, V, info, got)


def _norm_detail(d, top=True):
    # only an absent / empty detail as a whole is "no detail"; inside it,
    # falsy leaves (0, False, '') are data
    if top and (d is None or d == '' or d == {}):
        return None
    if isinstance(d, dict):
        return dict((str(k), _norm_detail(v, False)) for k, v in d.items())
    if d is None:
        return ''
    if isinstance(d, bool):
        return str(d)
    if isinstance(d, (int, float)):
        return str(d)
    if isinstance(d, bytes):
        return d.decode('utf8', 'replace')
    if isinstance(d, (list, tuple)):
        if len(d) == 1:
            return _norm_detail(d[0], False)
        return [_norm_detail(x, False) for x in d]
    return d


def _result(case, V, info, got):
    exc = case['exc']
    fired = {'raise_at_' + case['site']: 1, 'kind_' + exc['kind']: 1}
    sig = digest([case['site'], exc['kind'], exc.get('code'), exc.get('msg'),
                  repr(exc.get('detail')), case['in_prot'], case['out_prot'],
                  case['route'], case['chunked']])
    return {
        'violations': V,
        'fired': fired,
        'probes': {'route_' + case['route']: 1,
                   'nonfault_exception': 0 if ExcSpec.is_fault(exc) else 1,
                   'escaped': 1 if info.get('exc') is not None else 0},
        'signature': sig,
        'nontrivial': True,
        'steps': 1,
        'simtime': 0.0,
        'digest': digest([info.get('status'), repr(got),
                          type(info['exc']).__name__ if info.get('exc')
                          else None]),
        'summary': {'status': info.get('status'), 'decoded': repr(got)[:200]},
    }
