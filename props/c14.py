"""C14 — event hooks: documented order, exactly once, on success and failure.

Fault injected: exactly one failure per run at one pipeline stage (malformed
bytes, bad envelope, unknown method, invalid argument, raising method_call
listener, raising user function, raising method_return_object listener,
unserialisable return value, generator failing at item k), Fault and non-Fault,
for every protocol family, through the bare ServerBase pipeline and through
WSGI.  Oracle: the ordered, stamped trace of every listener invocation on every
manager is parsed by the specification automaton (DESIGN.md section 4, C14)."""

from sim import bootstrap
bootstrap()

from sim.rng import Streams, derive
from sim.universe import (Universe, make_protocol, validators_for,
                      WsgiApplication, PROTOCOLS, XML_FAMILY, SOAP_FAMILY, Ctl)
from sim.workload import build_request, ExcSpec
from sim.gateway import call_wsgi, Stamp
from sim.drive import serverbase_call, make_server
from sim import canon
from sim.runner import digest

ID = 'C14'
LEVEL = 'fault_enumeration'
BUDGET = {'quick': 240, 'thorough': 2400}
BLOCK = 250
RULE = ('one run = one call with exactly one failure injected at one pipeline '
        'stage (or none), for one (stage, exception kind, protocol pair, '
        'validator, route, listener level, method) cell; cells are swept '
        'cyclically (stage x kind x protocol family x route), remaining '
        'parameters drawn from the run PRNG. Non-trivial = a failure was '
        'injected or a raising listener ran; distinct = distinct (stage, kind, '
        'in/out protocol, validator, route, level, method, duplicate-'
        'registration) tuples.')
COMPONENTS = {
    'real': ['spyne.evmgr.EventManager', 'spyne.util.oset', 'spyne.context.'
             'MethodContext', 'spyne.application.Application.process_request',
             'spyne.service (ServiceBaseMeta listener inheritance)',
             'spyne.server._base.ServerBase', 'spyne.server.wsgi.'
             'WsgiApplication', 'spyne.protocol.* (all eight)'],
    'stub': ['transport around ServerBase (sim.drive.serverbase_call) / WSGI '
             'gateway (sim.gateway)', 'recording and raising listeners',
             'user service functions'],
}
ASSUMPTIONS = [
    'one injected failure per run; failures in listeners other than '
    'method_call / method_return_object are not generated',
    'whether the call "ended in a fault" is read from the response bytes with '
    'the fault decoder of the output protocol (ctx.out_error for the ServerBase '
    'route)',
    'unserialisable return values and failing generators are only driven '
    'through WSGI (ServerBase leaves those exceptions to its caller)',
]

PAIRS = [('soap11', 'soap11'), ('soap12', 'soap12'), ('xml', 'xml'),
         ('json', 'json'), ('yaml', 'yaml'), ('msgpack', 'msgpack'),
         ('msgpackrpc', 'msgpackrpc'), ('httprpc', 'json')]
STAGES = ['none', 'bytes', 'envelope', 'dispatch', 'argument', 'l_call',
          'fn', 'l_ret', 'badreturn', 'genraise0', 'genraiseN', 'verb',
          'charset']
LEVELS = ['app', 'method', 'service']
KINDS = ['fault_client', 'fault_server', 'fault_sub', 'not_found', 'custom',
         'key_error']
METHODS = ['multi', 'echo', 'prims', 'sub', 'noargs', 'nothing', 'inners']

EVENTS = ['method_context_created', 'method_call', 'method_return_object',
          'method_exception_object', 'method_return_document',
          'method_return_string', 'method_exception_document',
          'method_exception_string', 'method_context_closed',
          'method_return_push', 'method_redirect',
          'method_redirect_exception']
PROT_EVENTS = ['before_deserialize', 'after_deserialize', 'before_serialize',
               'after_serialize', 'serialize']
WSGI_EVENTS = ['wsgi_call', 'wsgi_return', 'wsgi_exception', 'wsgi_close',
               'wsdl', 'wsdl_exception']


def gen_cases(tier, verif_seed):
    n = {'quick': 20000, 'thorough': 500000}[tier]
    cells = [(st, pr, rt) for st in STAGES for pr in range(len(PAIRS))
                                               for rt in ('wsgi', 'sb')]
    for i in range(n):
        seed = derive(ID, verif_seed, i) & 0xffffffffffff
        rng = Streams(seed)['faults']
        st, pr, rt = cells[i % len(cells)]
        if st in ('badreturn', 'genraise0', 'genraiseN'):
            # only the eagerly serialising XML protocols are in the property's
            # quantifier for failures after the function returned
            pr = pr % 3
        in_prot, out_prot = PAIRS[pr]
        if in_prot == 'httprpc' or st in ('verb', 'charset'):
            rt = 'wsgi'     # (verb and Content-Type only exist over HTTP)
        kind = rng.choice(KINDS)
        exc = ExcSpec.draw(rng, kind, seed)
        if out_prot == 'soap12' and 'code' in exc and \
                            exc['code'].split('.')[0] not in ('Client', 'Server'):
            exc['code'] = 'Client.' + exc['code']
        if out_prot == 'soap12' and isinstance(exc.get('detail'), dict) and \
                                                   len(exc['detail']) > 1:
            exc['detail'] = {'k': 'v'}
        yield {
            'seed': seed,
            'useed': derive(seed, 'universe') & 0xffffffff,
            'stage': st, 'exc': exc,
            'in_prot': in_prot, 'out_prot': out_prot,
            'validator': rng.choice(validators_for(in_prot)),
            'route': rt,
            'level': rng.choice(LEVELS),
            'method': rng.choice(METHODS),
            'dup': rng.random() < .5,
            'variant': rng.randint(0, 3),
            'chunked': rng.random() < .5,
            # the same call once more on the same instance: what listeners
            # see is a function of the call, not of what happened before
            'again': Streams(seed)['again'].random() < .3,
        }


class Trace(object):
    def __init__(self):
        self.stamp = Stamp()
        self.ev = []        # (stamp, level, event, tag, desc_known)

    def listener(self, level, event, tag, raiser=None):
        def _l(ctx, *a, **kw):
            dk = getattr(ctx, 'descriptor', None) is not None
            self.ev.append((self.stamp(), level, event, tag, dk))
            if raiser is not None:
                raise raiser()
        _l.__name__ = 'listener_%s_%s_%s' % (level, event, tag)
        return _l

    def bound_listener(self, level, event, tag):
        """An object whose bound method is the listener: every attribute
        access yields a NEW (but equal) bound-method object."""
        trace = self

        class _Obj(object):
            def on_event(self, ctx, *a, **kw):
                dk = getattr(ctx, 'descriptor', None) is not None
                trace.ev.append((trace.stamp(), level, event, tag, dk))
        return _Obj()


class CallLog(list):
    def __init__(self, trace):
        list.__init__(self)
        self.trace = trace

    def append(self, item):
        list.append(self, item)
        if item[1] == 'enter':
            self.trace.ev.append((self.trace.stamp(), 'user', 'FN', item[0],
                                                                      True))


def _rclass(case):
    st = case['stage']
    if st in ('none', 'l_call', 'l_ret'):
        return ['ok', case['method']]
    if st == 'fn':
        return ['ok', case['method']]       # ctl.inject['fn'] set by caller
    if st == 'bytes':
        return ['malformed', ['truncate', 'garbage', 'empty',
                                          'truncate'][case['variant']]]
    if st == 'envelope':
        return ['envelope', case['variant']]
    if st == 'dispatch':
        return ['unknown']
    if st == 'argument':
        return ['invalid']
    if st == 'verb':
        return ['verb', ['GET', 'PUT', 'HEAD', 'DELETE'][case['variant']]]
    if st == 'charset':
        return ['charset', ['latin-1', 'bogus-charset', 'utf-16',
                            'ascii'][case['variant']]]
    if st == 'badreturn':
        return ['badreturn']
    if st == 'genraise0':
        return ['genraise', 0, case['exc']]
    if st == 'genraiseN':
        return ['genraise', [1, 'end', 1, 'end'][case['variant']],
                                                              case['exc']]
    raise ValueError(st)


def run_case(case):
    tr = Trace()
    ctl = Ctl()
    ctl.calls = CallLog(tr)
    st = case['stage']
    exc = case['exc']
    level = case['level']
    raising_event = {'l_call': 'method_call',
                     'l_ret': 'method_return_object'}.get(st)

    keep = []

    def reg(mgr, lvl, events):
        made = []
        for e in events:
            if case['dup'] and case['variant'] % 2:
                # the same bound method, obtained twice (two distinct but
                # equal objects): still one listener
                obj = tr.bound_listener(lvl, e, 'A')
                keep.append(obj)
                a = obj.on_event
                b = tr.listener(lvl, e, 'B')
                mgr.add_listener(e, obj.on_event)
                mgr.add_listener(e, b)
                mgr.add_listener(e, obj.on_event)
            else:
                a = tr.listener(lvl, e, 'A')
                b = tr.listener(lvl, e, 'B')
                mgr.add_listener(e, a)
                mgr.add_listener(e, b)
                if case['dup']:
                    mgr.add_listener(e, a)  # registered twice: runs once
            made.append((e, a, b))
        return made

    svc_listeners = []

    def on_service(svc):
        # before SubSvc is created: it must inherit these
        svc_listeners.extend(reg(svc.event_manager, 'service', EVENTS))
        if case['dup']:
            # the same listeners reach the subclass through a second base
            # too (diamond): still once each, in registration order
            from spyne import Service
            mixin = type('MixinSvc', (Service,), {})
            for e, a, b in svc_listeners:
                # one listener shared with the other base (B), one of its own
                # (M): the subclass must run the union A, B, M -- B once
                mixin.event_manager.add_listener(e, b)
                mixin.event_manager.add_listener(e,
                                            tr.listener('service', e, 'M'))
            return [mixin]

    uni = Universe(Streams(case['useed'])['universe'], on_service=on_service,
                                                                    ctl=ctl)
    reg(uni.method_evmgr, 'method', EVENTS)
    if case['dup'] and uni.sub_service is not None:
        # ... and are registered once more on the subclass that inherited them
        for e, a, b in svc_listeners:
            uni.sub_service.event_manager.add_listener(e, a)
    in_prot, out_prot = case['in_prot'], case['out_prot']
    inp = make_protocol(in_prot, case['validator'])
    outp = make_protocol(out_prot)
    app = uni.make_app(inp, outp)
    reg(app.event_manager, 'app', EVENTS)
    reg(inp.event_manager, 'inprot', PROT_EVENTS)
    reg(outp.event_manager, 'outprot', PROT_EVENTS)
    if st == 'fn':
        ctl.inject['fn'] = lambda: ExcSpec.make(exc)
    ws = Streams(case['seed'])['workload']
    req = build_request(uni, in_prot, _rclass(case), ws)
    mname = req.label[0]
    if raising_event is not None:
        r = tr.listener(level, raising_event, 'R',
                                           raiser=lambda: ExcSpec.make(exc))
        if level == 'app':
            app.event_manager.add_listener(raising_event, r)
        elif level == 'method':
            uni.method_evmgr.add_listener(raising_event, r)
        else:
            svc = uni.sub_service if mname == 'sub' else uni.service
            svc.event_manager.add_listener(raising_event, r)

    info = {}
    server = wsgi = None
    if case['route'] == 'wsgi':
        wsgi = WsgiApplication(app, chunked=case['chunked'])
        reg(wsgi.event_manager, 'wsgi', WSGI_EVENTS)
    else:
        server = make_server(app)
    r = _call_and_judge(case, tr, uni, req, mname, wsgi, server, out_prot)
    if case.get('again'):
        n0 = len(tr.ev)
        first = dict(r['summary'])
        r2 = _call_and_judge(case, tr, uni, req, mname, wsgi, server,
                             out_prot, start=n0)
        strip = lambda evs: [list(e[1:]) for e in evs]
        t1, t2 = strip(tr.ev[:n0]), strip(tr.ev[n0:])
        r['fired']['same_call_again'] = 1
        r['steps'] = len(tr.ev)
        r['digest'] = digest([r['digest'], r2['digest']])
        tag = 'stage=%s|route=%s|out=%s' % (case['stage'], case['route'],
                                            _fam(out_prot))
        if t1 != t2:
            k = 0
            while k < min(len(t1), len(t2)) and t1[k] == t2[k]:
                k += 1
            r['violations'].append({
                'sig': 'H1-trace-depends-on-history|' + tag,
                'what': 'the same call sent a second time to the same '
                        'instance is seen differently by the listeners from '
                        'event %d on: first %r, second %r' % (k, t1[k:k + 4],
                                                              t2[k:k + 4])})
        elif first.get('fault') != r2['summary'].get('fault'):
            r['violations'].append({
                'sig': 'H2-outcome-depends-on-history|' + tag,
                'what': 'the same call ended with fault=%r the first and '
                        'fault=%r the second time' % (first.get('fault'),
                                             r2['summary'].get('fault'))})
        # what the automaton says about the second call counts too
        seen = set(v['sig'] for v in r['violations'])
        for v in r2['violations']:
            if v['sig'] not in seen:
                r['violations'].append(dict(v, what='(second call) ' +
                                                            v['what']))
    return r


def _fam(out_prot):
    from sim.universe import XML_FAMILY, SOAP_FAMILY
    return 'soap' if out_prot in SOAP_FAMILY else \
        'xml' if out_prot in XML_FAMILY else 'dict'


def _call_and_judge(case, tr, uni, req, mname, wsgi, server, out_prot,
                    start=0):
    info = {}
    if start:
        # judge() reads the trace of ONE call
        whole = tr.ev
        tr.ev = []
        uni.ctl.calls[:] = []
    if case['route'] == 'wsgi':
        o = call_wsgi(wsgi, req, stamp=tr.stamp)
        info['exc'] = o.exc
        info['exc_where'] = o.exc_where
        body = o.body
        info['status'] = o.status
        is_fault = None
        if o.exc is None and body is not None:
            is_fault = _is_fault(out_prot, body, o.status)
    else:
        o = serverbase_call(server, req.body)
        info['exc'] = o.exc
        info['exc_where'] = o.exc_stage
        info['status'] = None
        is_fault = o.is_fault
    r = judge(case, tr, uni, info, is_fault, mname)
    if start:
        tr.ev = whole + tr.ev
    return r


def _is_fault(out_prot, body, status):
    try:
        kind, _ = canon.decode_fault(out_prot, body)
    except canon.Undecodable:
        return None
    if kind == 'unknown':
        return not (status or '').startswith('2')
    return kind == 'fault'


def judge(case, tr, uni, info, is_fault, mname):
    V = []
    st = case['stage']
    level = case['level']
    fam = ('soap' if case['out_prot'] in SOAP_FAMILY else
           'xml' if case['out_prot'] == 'xml' else 'dict')
    where = 'stage=%s|route=%s|out=%s' % (st, case['route'], fam)

    def viol(edge, what):
        V.append({'sig': '%s|%s' % (edge, where), 'what': '%s [stage=%s '
                  'route=%s in=%s out=%s level=%s method=%s]' % (what, st,
                  case['route'], case['in_prot'], case['out_prot'], level,
                  mname)})

    if info['exc'] is not None:
        # an escaping exception is C10/C13 territory; here it only matters
        # that listeners still saw a consistent prefix and the close
        site = canon.exc_site(info['exc'])
        sig = 'escaped|%s|%s' % (type(info['exc']).__name__, site)
        if case['route'] == 'sb' and info['exc_where'] == 'get_out_string' \
                and st in ('badreturn', 'genraise0', 'genraiseN'):
            # one finding whatever was raised where while the response was
            # being serialised: ServerBase leaves it to the transport
            sig = 'unconverted-serialisation-failure|route=sb'
        V.append({'sig': sig,
                  'what': 'exception %s escaped the %s route at %s (%s); '
                  'event protocol cannot complete' % (
                      type(info['exc']).__name__, case['route'], site,
                      info['exc_where'])})
        return _result(case, tr, V, info, is_fault)
    if is_fault is None:
        V.append({'sig': 'undecodable-response|%s' % where,
                  'what': 'response is not a document of the output protocol'})
        return _result(case, tr, V, info, is_fault)

    # ---- per-manager listener order: (A B R?)* per firing ----------------
    seqs = {}
    for lvl in ('app', 'method', 'service', 'wsgi', 'inprot', 'outprot'):
        evs = [e for e in tr.ev if e[1] == lvl]
        firings = []
        i = 0
        ok = True
        while i < len(evs):
            e = evs[i]
            if e[3] != 'A':
                ok = False
                break
            name = e[2]
            group = [e]
            i += 1
            if i < len(evs) and evs[i][3] == 'B' and evs[i][2] == name:
                group.append(evs[i])
                i += 1
            else:
                ok = False
                break
            has_m = False
            if i < len(evs) and evs[i][3] == 'M' and evs[i][2] == name:
                has_m = True
                i += 1
            want_m = (lvl == 'service' and case['dup'] and mname == 'sub')
            if has_m != want_m:
                ok = False
                break
            raised = False
            if i < len(evs) and evs[i][3] == 'R' and evs[i][2] == name:
                group.append(evs[i])
                raised = True
                i += 1
            firings.append((name, e[0], e[4], raised))
        if not ok:
            viol('listener-order:%s' % lvl, 'listeners on the %s manager did '
                 'not run as [A, B] once each per event: %s' % (lvl,
                 ' '.join('%s:%s' % (x[2].replace('method_', ''), x[3])
                          for x in evs)[:300]))
        seqs[lvl] = firings

    # ---- application-level automaton ---------------------------------------
    fn_events = [(e[0], 'FN') for e in tr.ev if e[1] == 'user']
    app_seq = sorted([(f[1], f[0]) for f in seqs['app']] + fn_events)
    names = [n for _, n in app_seq]
    short = [n.replace('method_', '') for n in names]
    tshow = ' '.join(short)
    if names.count('method_context_created') != 1 or \
                                   names[:1] != ['method_context_created']:
        viol('created', 'method_context_created must fire exactly once, '
                                                     'first: ' + tshow)
    if names.count('method_context_closed') != 1 or \
                                   names[-1:] != ['method_context_closed']:
        viol('closed', 'method_context_closed must fire exactly once, last: '
                                                                  + tshow)
    mid = [n for n in names if n not in ('method_context_created',
                                                'method_context_closed')]
    i = 0
    call = fn = ret = exc = False

    def at(k):
        return mid[k] if k < len(mid) else None
    if at(i) == 'method_call':
        call = True
        i += 1
        if at(i) == 'FN':
            fn = True
            i += 1
        if at(i) == 'method_return_object':
            ret = True
            i += 1
    if at(i) == 'method_exception_object':
        exc = True
        i += 1
    pair = None
    if at(i) == 'method_return_document' and \
                                      at(i + 1) == 'method_return_string':
        pair = 'return'
        i += 2
    elif at(i) == 'method_exception_document' and \
                                   at(i + 1) == 'method_exception_string':
        pair = 'exception'
        i += 2
    if pair is None or i != len(mid):
        edge = '%s->%s' % ((mid[i - 1] if i else 'created').replace(
                       'method_', ''), str(at(i)).replace('method_', ''))
        viol('automaton:%s' % edge, 'event trace not accepted by the '
             'specification automaton at %s: %s' % (edge, tshow))
    else:
        if mid.count('FN') > 1:
            viol('fn-twice', 'user function ran more than once: ' + tshow)
        fn_ok = fn and st != 'fn'
        if ret != fn_ok:
            viol('return_object:%s' % ('missing' if fn_ok else 'spurious'),
                 'method_return_object %s although the function %s: %s' % (
                     'did not fire' if fn_ok else 'fired', 'returned normally'
                     if fn_ok else 'did not return normally', tshow))
        if exc != is_fault:
            viol('exception_object:%s' % ('missing' if is_fault else
                 'spurious'), 'method_exception_object %s although the call '
                 '%s: %s' % ('did not fire' if is_fault else 'fired',
                 'ended in a fault' if is_fault else 'succeeded', tshow))
        if (pair == 'exception') != is_fault:
            viol('pair:%s' % pair, 'the %s document/string events fired '
                 'although the call %s: %s' % (pair, 'ended in a fault' if
                 is_fault else 'succeeded', tshow))
    if 'FN' in names and 'method_call' in names and \
                          names.index('FN') < names.index('method_call'):
        viol('fn-before-method_call', 'user function ran before method_call')

    # ---- method / service managers: derived expectation -------------------
    order = ['app', 'method', 'service']
    for lvl in ('method', 'service'):
        expect = []
        for name, stamp, desc_known, raised in seqs['app']:
            if not desc_known:
                continue
            if name in ('method_context_created', 'method_context_closed'):
                continue
            # a raising listener on an earlier manager cuts propagation
            cut = any(f[0] == name and f[3]
                      for earlier in order[:order.index(lvl)]
                      for f in seqs[earlier])
            if not cut:
                expect.append(name)
        got = [f[0] for f in seqs[lvl]]
        if got != expect:
            viol('level-seq:%s' % lvl, '%s-level manager saw %s, expected %s '
                 '(inheritance / propagation)' % (lvl,
                 [g.replace('method_', '') for g in got],
                 [g.replace('method_', '') for g in expect]))

    # ---- transport level (WSGI): exactly-once bookkeeping ------------------
    if case['route'] == 'wsgi':
        w = [f[0] for f in seqs['wsgi']]
        if w.count('wsgi_call') != 1 or w[:1] != ['wsgi_call']:
            viol('wsgi_call', 'wsgi_call must fire once, first: %s' % w)
        if w.count('wsgi_close') != 1 or w[-1:] != ['wsgi_close']:
            viol('wsgi_close', 'wsgi_close must fire once, last: %s' % w)
    return _result(case, tr, V, info, is_fault)


def _result(case, tr, V, info, is_fault):
    st = case['stage']
    fired = {}
    if st != 'none':
        fired['inject_' + st] = 1
        fired['kind_' + ('fault' if ExcSpec.is_fault(case['exc'])
                                                   else 'nonfault')] = 1
    probes = {
        'raising_listener_ran': len([e for e in tr.ev if e[3] == 'R']),
        'duplicate_registration': 1 if case['dup'] else 0,
        'subclass_service_call': 1 if case['method'] == 'sub' and
                                 st in ('none', 'l_call', 'l_ret', 'fn') else 0,
        'ended_in_fault': 1 if is_fault else 0,
    }
    sig = digest([st, case['exc']['kind'] if st != 'none' else '',
                  case['in_prot'], case['out_prot'], case['validator'],
                  case['route'], case['level'], case['method'], case['dup']])
    return {
        'violations': V,
        'fired': fired,
        'probes': probes,
        'signature': sig,
        'nontrivial': st != 'none',
        'steps': len(tr.ev),
        'simtime': 0.0,
        'digest': digest([[list(e) for e in tr.ev], info.get('status'),
                          is_fault]),
        'summary': {'trace': ' '.join('%s:%s:%s' % (e[1][:3],
                    e[2].replace('method_', ''), e[3]) for e in tr.ev
                    if e[3] in ('A', 'R') or e[1] == 'user')[:400],
                    'fault': is_fault},
    }
