"""C13 — WSGI response protocol and request-size limit.

Simulated: the gateway (read plan x header plan x consumer plan) around the real
WsgiApplication; faults: short reads, early EOF, over-long stream, None reads,
read errors, Content-Length lies, client aborts.  Oracle: PEP 3333 invariants
I1..I7 over the recorded, stamped event history (DESIGN.md section 4, C13)."""

import os
import re

from sim import bootstrap
bootstrap()

from sim.rng import Streams, derive
from sim.universe import (Universe, make_protocol, validators_for,
                          WsgiApplication, PROTOCOLS, XML_FAMILY, SOAP_FAMILY)
from sim.workload import build_request, ExcSpec
from sim.gateway import call_wsgi, Stamp
from sim import canon
from sim.runner import digest

ID = 'C13'
LEVEL = 'fault_enumeration'
BUDGET = {'quick': 240, 'thorough': 2400}
BLOCK = 250
RULE = ('one run = one request (in 30 % of the runs followed by a clean request '
        'to the same instance, judged against a fresh instance with the same '
        'fault-free history) through WsgiApplication under one cell of '
        '(request class x protocol pair x validator x Content-Length case x '
        'read plan x block_length x max_content_length x chunked x consumer '
        'plan x environ mode (all variables / empty ones omitted / mount point '
        '/ wsgi.input_terminated) x resources parked in ctx.files, one of '
        'whose close() fails); request classes include multipart/related '
        'bodies, a failing ?wsdl build, an MTOM method and a File response '
        'streamed from a handle with injected read errors; request class '
        'cycles deterministically, the other dimensions '
        'are drawn from the run PRNG. A run is non-trivial when at least one '
        'stream/consumer/header fault actually fired or the request is an '
        'error class; distinct = distinct (request class, protocols, fault '
        'kinds fired, knobs, consumer) tuples.')
COMPONENTS = {
    'real': ['spyne.server.wsgi.WsgiApplication', 'spyne.server.http',
             'spyne.server._base.ServerBase', 'spyne.application',
             'spyne.context', 'spyne.protocol.* (xml, soap11, soap12, json, '
             'yaml, msgpack, msgpack-rpc, http-rpc GET)', 'lxml/json/yaml/'
             'msgpack C libraries (atomic steps)'],
    'stub': ['WSGI gateway + HTTP peer (sim.gateway.call_wsgi)',
             'wsgi.input (sim.gateway.SimStream)',
             'user service functions and listeners (sim.universe)',
             'files parked in ctx.files (SimFile) and the file behind a File '
             'response (SimHandle): in-memory, with injected close / read '
             'errors'],
}
ASSUMPTIONS = [
    'single caller, one or two consecutive requests per instance; the '
    'schedule is the gateway plan (reads, next, close)',
    'the follow-up request is clean (full reads, honest Content-Length, '
    'drained and closed); resources are parked in ctx.files by the first '
    'request only',
    'negative CONTENT_LENGTH values are not generated (a non-numeric one is: '
    'wsgiref hands the header over verbatim)',
    'with an injected read error I1-I3 and the closing of the context are '
    'asserted',
    'with CONTENT_LENGTH absent "longer than max_content_length" is not '
    'decidable within the read bound: only the bound (I6) is asserted',
    'a gateway that never calls close() (drain_no_close) is not conformant: '
    'nothing is asserted about the context then',
]

PAIRS = [('soap11', 'soap11'), ('soap12', 'soap12'), ('xml', 'xml'),
         ('json', 'json'), ('yaml', 'yaml'), ('msgpack', 'msgpack'),
         ('msgpackrpc', 'msgpackrpc'), ('httprpc', 'json'),
         ('json', 'xml'), ('xml', 'json'), ('httprpc', 'httprpc')]

BLOCK_LENGTHS = [1, 2, 3, 7, 64, 8192]
ML_MODES = ['zero', 'one', 'body-1', 'body', 'body+1', 'big']
CL_MODES = ['equal', 'absent', 'empty', 'smaller', 'larger', 'over_limit',
            'garbage']      # (wsgiref hands the header over verbatim)
READ_PLANS = ['full', 'short', 'eof_early', 'overlong', 'none', 'error']
CONSUMERS = ['drain', 'abort', 'close_only', 'drain_no_close']


FOLLOW = [['ok', 'prims'], ['ok', 'echo'], ['ok', 'inners'], ['ok', 'noargs'],
          ['ok', 'multi'], ['gen', 3], ['wsdl'], ['wsdl'], ['unknown'],
          ['invalid']]

MULTIPART = ['ok', 'no_cid', 'attach_first', 'bad_charset',
             'nonascii_boundary', 'no_boundary', 'no_root', 'truncated',
             'empty', 'root_only', 'root_only_charset']
# PEP 3333: PATH_INFO and QUERY_STRING may be omitted when empty
# ... and a gateway that de-chunks uploads says so (wsgi.input_terminated)
ENV_MODES = ['full', 'full', 'full', 'omit_qs', 'mount_point', 'terminated',
             'script_root']


def _rclasses(rng, seed):
    """The request classes, one list; index cycles with the run index."""
    out = []
    for m in ('prims', 'echo', 'inners', 'multi', 'noargs', 'nothing', 'sub',
              'mtom'):
        out.append(['ok', m])
    for n in (0, 1, 3):
        out.append(['gen', n])
    for k in (0, 1, 'end'):
        for kind in ('fault_client', 'custom'):
            out.append(['genraise', k, ExcSpec.draw(rng, kind, seed)])
    for kind in ExcSpec.KINDS:
        out.append(['fault', ExcSpec.draw(rng, kind, seed)])
    out.append(['unknown'])
    out.append(['invalid'])
    for how in ('truncate', 'garbage', 'empty'):
        out.append(['malformed', how])
    out.append(['wsdl'])
    out.append(['wsdl', 'badhost'])
    out.append(['badreturn'])
    out.append(['badreturn', 'multi'])
    for verb in ('GET', 'PUT', 'HEAD'):
        out.append(['verb', verb])
    for cs in ('latin-1', 'bogus-charset', 'utf-16'):
        out.append(['charset', cs])
    for how in MULTIPART:
        out.append(['multipart', how])
    # a File result streamed from a handle (HttpRpc out only): size, and the
    # index of the read() that fails with an I/O error (None: no failure)
    for size, bad in ((0, None), (100, None), (20000, None), (20000, 1),
                      (100, 0)):
        out.append(['download', size, bad])
    return out


N_RCLASS = len(_rclasses(__import__('random').Random(0), 0))


N_CASES = {'quick': 24000, 'thorough': 600000}


def gen_cases(tier, verif_seed):
    n = N_CASES[tier]
    for i in range(n):
        yield make_case(verif_seed, i)


def make_case(verif_seed, i):
    seed = derive(ID, verif_seed, i) & 0xffffffffffff
    rng = Streams(seed)['faults']
    rcl = _rclasses(Streams(seed)['workload'], seed)[i % N_RCLASS]
    pair = rng.choice(PAIRS)
    if pair[1] == 'soap12' and rcl[0] == 'fault' and \
                                          rcl[1]['kind'] == 'fault_open':
        # SOAP 1.2's fault vocabulary is closed (Client/Server first segment)
        rcl[1]['code'] = 'Client.' + rcl[1]['code']
    val = rng.choice(validators_for(pair[0]))
    plan_kind = rng.choice(READ_PLANS)
    consumer = rng.choice(CONSUMERS + ['drain', 'abort'])
    case = {
        'seed': seed,
        'useed': derive(seed, 'universe') & 0xffffffff,
        'in_prot': pair[0], 'out_prot': pair[1], 'validator': val,
        'rclass': rcl,
        'block_length': rng.choice(BLOCK_LENGTHS),
        'ml_mode': rng.choice(ML_MODES + ['big', 'big', 'big']),
        'chunked': rng.random() < .5,
        'cl_mode': rng.choice(CL_MODES + ['equal', 'equal']),
        'plan_kind': plan_kind,
        'plan_args': [rng.randint(0, 6), rng.randint(1, 5)],
        'consumer': [consumer, rng.randint(0, 3)],
        'env_mode': rng.choice(ENV_MODES),
        # user code parks k resources in ctx.files; close() of one of them
        # fails (an I/O error at close time)
        'files': [rng.randint(1, 3), rng.choice((-1, -1, 0, 1, 2))]
                 if rng.random() < .2 else None,
        # second opinion: the standard library's PEP 3333 lint wrapper sits
        # between the gateway and the application
        'lint': rng.random() < .25,
    }
    # aftermath: once the (possibly faulted, aborted, refused) request is
    # over, a clean request goes to the SAME instance and must be answered
    # as a fresh, identically built instance answers it
    frng = Streams(seed)['follow']
    if frng.random() < .3:
        case['follow'] = frng.choice(FOLLOW)
    return case


class SimHandle(object):
    """The file a user function hands over in File.Value(handle=...)."""

    def __init__(self, size, bad_read, events, stamp):
        self.data = bytes(bytearray((i * 7) % 251 for i in range(size)))
        self.pos = 0
        self.bad_read = bad_read
        self.reads = 0
        self.close_calls = 0
        self.events, self.stamp = events, stamp
        self.name = 'sim-handle'

    def seek(self, pos, whence=0):
        self.pos = pos

    def tell(self):
        return self.pos

    def read(self, n=-1):
        k = self.reads
        self.reads += 1
        if self.bad_read is not None and k == self.bad_read:
            self.events.append((self.stamp(), 'handle_read_error'))
            raise OSError('sim: read() of the response file failed')
        if n is None or n < 0:
            n = len(self.data) - self.pos
        d = self.data[self.pos:self.pos + n]
        self.pos += len(d)
        return d

    def close(self):
        self.close_calls += 1
        self.events.append((self.stamp(), 'handle_close'))

    def fileno(self):
        # like a gzip / pipe / procfs handle: there is a descriptor, but what
        # fstat() says about it is not what read() delivers
        global _BACKING
        if _BACKING is None:
            import tempfile
            _BACKING = tempfile.TemporaryFile()
            _BACKING.write(b'7 bytes')
            _BACKING.flush()
        return _BACKING.fileno()


_BACKING = None     # a regular file, like the compressed file behind gzip.open


class SimFile(object):
    def __init__(self, idx, fail, events, stamp):
        self.idx, self.fail = idx, fail
        self.events, self.stamp = events, stamp
        self.close_calls = 0

    def close(self):
        self.close_calls += 1
        self.events.append((self.stamp(), 'file_close', self.idx))
        if self.fail and self.close_calls == 1:
            raise OSError('sim: close() of ctx.files[%d] failed' % self.idx)


def _resolve(case, body_len):
    """knob modes -> concrete numbers (depends on the request body length)."""
    ml = {'zero': 0, 'one': 1, 'body-1': max(0, body_len - 1),
          'body': body_len, 'body+1': body_len + 1,
          'big': 2 * 1024 * 1024}[case['ml_mode']]
    clm = case['cl_mode']
    if clm in ('equal', 'absent', 'empty', 'garbage'):
        cl = clm
    elif clm == 'smaller':
        cl = max(0, body_len - 1 - case['plan_args'][0])
    elif clm == 'larger':
        cl = body_len + 1 + case['plan_args'][0]
    else:
        cl = ml + 1 + case['plan_args'][0]
    return ml, cl


def _read_plan(case, body_len, block):
    k = case['plan_kind']
    a, b = case['plan_args']
    trailing = b''
    plan = []
    if k == 'short':
        plan = [('short', b)] * (a + 1) + [('full',), ('short', 1)]
    elif k == 'eof_early':
        plan = [('full',)] * a + [('eof',)]
    elif k == 'overlong':
        trailing = b'X' * (3 * 1024 * 1024 if a % 2 else 64 + a)
    elif k == 'none':
        plan = [('full',)] * a + [('none',)]
    elif k == 'error':
        plan = [('full',)] * a + [('error',)]
    return plan, trailing


_STATUS = re.compile(r'^\d{3} .+$')


def _ctl_chars(s):
    return any(ord(c) < 32 or ord(c) == 127 for c in s)


def run_case(case):
    # spyne's locks are SimLocks here too: a lock left held by a failed
    # request shows as SelfDeadlock in the next one instead of hanging the run
    from sim import sched
    sched.install_seams()
    ws = Streams(case['seed'])['workload']
    uni = Universe(Streams(case['useed'])['universe'])
    in_prot, out_prot = case['in_prot'], case['out_prot']
    handles = []
    services = None
    if case['rclass'][0] == 'download':
        if (in_prot, out_prot) == ('httprpc', 'httprpc'):
            from spyne import File, Service, rpc as _rpc
            from sim.universe import Request
            stamp_box = []

            def download(ctx):
                uni.ctl.calls.append(('download', 'enter'))
                h = SimHandle(case['rclass'][1], case['rclass'][2],
                              stamp_box[1], stamp_box[0])
                handles.append(h)
                return File.Value(handle=h, type='application/octet-stream')
            dl = type('DlSvc', (Service,),
                      {'download': _rpc(_returns=File)(download)})
            services = list(uni.services) + [dl]
            req = Request('GET', '/download', '', None, b'',
                                                      ('download', 'ok'))
        else:
            case = dict(case, rclass=['ok', 'noargs'])
    if case['rclass'][0] != 'download':
        req = build_request(uni, in_prot, case['rclass'], ws)
    body_len = len(req.body)
    ml, cl = _resolve(case, body_len)
    plan, trailing = _read_plan(case, body_len, case['block_length'])

    app = uni.make_app(make_protocol(in_prot, case['validator']),
                                 make_protocol(out_prot), services=services)
    wsgi = WsgiApplication(app, chunked=case['chunked'],
                 max_content_length=ml, block_length=case['block_length'])
    stamp = Stamp()
    events = []
    if services is not None:
        stamp_box[:] = [stamp, events]
    app.event_manager.add_listener('method_context_created',
                   lambda ctx: events.append((stamp(), 'ctx_created')))
    app.event_manager.add_listener('method_context_closed',
                   lambda ctx: events.append((stamp(), 'ctx_closed')))
    wsgi.event_manager.add_listener('wsgi_close',
                   lambda ctx: events.append((stamp(), 'wsgi_close')))
    simfiles = []
    parking = [True]
    if case.get('files'):
        n, bad = case['files']

        def _park(ctx):
            if not parking[0]:
                return
            for i in range(n):
                f = SimFile(i, i == bad, events, stamp)
                simfiles.append(f)
                ctx.files.append(f)
        app.event_manager.add_listener('method_call', _park)
    if case['rclass'][0] == 'wsdl' and case['plan_args'][0] % 2:
        # the documented use of the `wsdl` event: a listener that edits the
        # document about to be served (e.g. to publish a proxy URL)
        def _edit_wsdl(ctx):
            if ctx.transport.wsdl is not None:
                ctx.transport.wsdl = ctx.transport.wsdl.replace(
                    b'<wsdl:definitions', b'<!-- served through sim.invalid '
                    b'-->\n<wsdl:definitions', 1)
        wsgi.event_manager.add_listener('wsdl', _edit_wsdl)
    em = case.get('env_mode', 'full')
    if em == 'omit_qs' and req.qs == '':
        req.env = dict(req.env or {}, QUERY_STRING=None)
    elif em == 'mount_point' and req.path == '/' and in_prot != 'httprpc':
        # the application is mounted at /app and the request goes to the
        # mount point itself: PATH_INFO is empty, so it may be left out
        req.env = dict(req.env or {}, SCRIPT_NAME='/app', PATH_INFO=None)
        if req.qs == '':
            req.env['QUERY_STRING'] = None
    elif em == 'script_root' and req.path == '/' and in_prot != 'httprpc':
        # SCRIPT_NAME '/' (some gateways say that for the root) and nothing
        # left for PATH_INFO
        req.env = dict(req.env or {}, SCRIPT_NAME='/', PATH_INFO=None)
    elif em == 'terminated':
        req.env = dict(req.env or {})
        req.env['wsgi.input_terminated'] = True
    cons = case['consumer']
    consumer = (cons[0], cons[1]) if cons[0] == 'abort' else (cons[0],)
    target = wsgi
    lint = bool(case.get('lint')) and cl not in ('empty', 'garbage') and \
        case['plan_kind'] != 'none' and \
        case['consumer'][0] != 'drain_no_close' and \
        case.get('env_mode') not in ('mount_point', 'script_root')
    # (the linter indexes PATH_INFO and refuses SCRIPT_NAME '/')
    if lint:
        # (it also lints the gateway: an empty CONTENT_LENGTH, a read()
        # returning None and never calling close() are faults of OUR side,
        # so it is left out there)
        import warnings
        from wsgiref.validate import validator
        warnings.simplefilter('ignore')
        target = validator(wsgi)
    o = call_wsgi(target, req, read_plan=plan, content_length=cl,
                  consumer=consumer, trailing=trailing, stamp=stamp,
                  events=events)
    if lint:
        o.fired['lint_wrapper'] = 1
        if isinstance(o.exc, AssertionError):
            tb = o.exc.__traceback__
            fn = '?'
            last = None
            while tb is not None:
                last = tb.tb_frame.f_code.co_filename
                if last.endswith('validate.py') \
                        and tb.tb_frame.f_code.co_name != 'assert_':
                    fn = tb.tb_frame.f_code.co_name
                tb = tb.tb_next
            r = judge(case, uni, req, o, ml, cl, simfiles, handles)
            if not (last or '').endswith('validate.py'):
                return r        # an AssertionError of the application's own
            r['violations'].append({
                'sig': 'W-lint|%s|%s' % (fn, _rsig(case)),
                'what': 'wsgiref.validate refuses what the application did '
                        '(%s): %s' % (fn, canon.mask(str(o.exc))[:200])})
            return r
    r = judge(case, uni, req, o, ml, cl, simfiles, handles)
    if case.get('follow') and services is None:
        parking[0] = False
        _aftermath(case, uni, wsgi, ml, r, o.events, req)
    return r


def _follow_request(case, uni):
    ctl = uni.ctl
    ctl.inject.clear()
    ctl.gen_len = None
    ctl.bad_return = False
    frq = build_request(uni, case['in_prot'], list(case['follow']),
                        Streams(derive(case['seed'], 'follow-req'))['workload'])
    return frq


def _aftermath(case, uni, wsgi, ml, r, ev0, req):
    """The request of this run is over (served, refused, aborted by the
    consumer, failed in the stream...).  A clean request to the same instance
    gets what a fresh instance built the same way answers."""
    out_prot = case['out_prot']
    is_wsdl = case['follow'][0] == 'wsdl'

    def send(u, target, log):
        n0 = u.ctl.n_calls()
        frq = _follow_request(case, u)
        o = call_wsgi(target, frq, read_plan=(), content_length='equal',
                      consumer=('drain',), events=log)
        return o, u.ctl.n_calls() - n0

    uni2 = Universe(Streams(case['useed'])['universe'])
    app2 = uni2.make_app(make_protocol(case['in_prot'], case['validator']),
                         make_protocol(out_prot))
    wsgi2 = WsgiApplication(app2, chunked=case['chunked'],
            max_content_length=ml, block_length=case['block_length'])
    if case['rclass'][0] == 'wsdl' and case['plan_args'][0] % 2:
        def _edit_wsdl(ctx):
            if ctx.transport.wsdl is not None:
                ctx.transport.wsdl = ctx.transport.wsdl.replace(
                    b'<wsdl:definitions', b'<!-- served through sim.invalid '
                    b'-->\n<wsdl:definitions', 1)
        wsgi2.event_manager.add_listener('wsdl', _edit_wsdl)
    log2 = []
    app2.event_manager.add_listener('method_context_created',
                   lambda ctx: log2.append((0, 'ctx_created')))
    app2.event_manager.add_listener('method_context_closed',
                   lambda ctx: log2.append((0, 'ctx_closed')))
    if case['rclass'][0] == 'wsdl':
        # the document is built once, for the URL of whoever asked first: the
        # reference instance has seen the same first request (fault-free)
        call_wsgi(wsgi2, req, read_plan=(), content_length='equal',
                  consumer=('drain',))
        del log2[:]
    ref, ref_calls = send(uni2, wsgi2, log2)
    log = []
    # (the listeners of the first request append to its own event list; the
    # follow-up is counted from where that list stands now)
    n_before = len(ev0) if ev0 is not None else 0
    got, got_calls = send(uni, wsgi, ev0 if ev0 is not None else log)
    evs = (ev0[n_before:] if ev0 is not None else log)
    r['fired']['follow_up_request'] = 1
    r['probes']['follow_after_incomplete'] = \
        1 if not r['summary'].get('complete') else 0
    a = canon.canon_response(out_prot, ref, is_wsdl)
    b = canon.canon_response(out_prot, got, is_wsdl)
    V = r['violations']
    tag = '%s>%s|out=%s' % (case['rclass'][0], case['follow'][0],
                'xmlfam' if out_prot in XML_FAMILY else out_prot)
    if a != b:
        V.append({'sig': 'A1-aftermath-response|' + tag,
            'what': 'after a %r request (%s, consumer %s) a clean %r request '
                    'to the same instance is answered %s; a fresh instance '
                    'answers %s' % (case['rclass'][:2], case['plan_kind'],
                    case['consumer'], case['follow'], _short(b), _short(a))})
    if got_calls != ref_calls:
        V.append({'sig': 'A2-aftermath-user-calls|' + tag,
            'what': 'follow-up request ran user code %d times on the used '
                    'instance, %d times on a fresh one' % (got_calls,
                                                           ref_calls)})
    cnt = lambda l, k: len([e for e in l if e[1] == k])
    for k in ('ctx_created', 'ctx_closed'):
        if cnt(evs, k) != cnt(log2, k):
            V.append({'sig': 'A3-aftermath-%s|%s' % (k, tag),
                'what': 'follow-up request: %s fired %d times on the used '
                        'instance, %d times on a fresh one' % (k,
                                            cnt(evs, k), cnt(log2, k))})
    r['steps'] += len(evs)
    r['digest'] = digest([r['digest'], b, got_calls,
                          [list(e[1:]) for e in evs]])


def _short(x, n=300):
    s = repr(x)
    return s if len(s) <= n else s[:n] + '...'


def judge(case, uni, req, o, ml, cl, simfiles=(), handles=()):
    V = []
    rkind = case['rclass'][0]
    in_prot, out_prot = case['in_prot'], case['out_prot']
    fam = 'soap' if out_prot in SOAP_FAMILY else out_prot
    is_wsdl = rkind == 'wsdl'
    ev = o.events
    cons = case['consumer'][0]
    read_err = o.fired.get('read_error', 0) > 0

    def viol(inv, detail, what):
        V.append({'sig': '%s|%s|%s' % (inv, detail, _rsig(case)),
                  'what': what})

    def first(kind):
        for e in ev:
            if e[1] == kind:
                return e[0]
        return None

    def last(kind):
        r = None
        for e in ev:
            if e[1] == kind:
                r = e[0]
        return r

    # I1 -------------------------------------------------------------------
    if o.exc is not None and o.exc_where == 'call':
        injected = read_err and isinstance(o.exc, OSError)
        if not injected:
            site = canon.exc_site(o.exc)
            V.append({'sig': 'I1-callable-raised|%s|%s' % (
                                          type(o.exc).__name__, site),
                'what': 'WSGI callable raised %s (%s) at %s instead of '
                        'calling start_response' % (type(o.exc).__name__,
                        canon.mask(str(o.exc))[:160], site)})
    # (an exception while the gateway iterates a lazily serialised response
    # is how PEP 3333 lets an application report a late failure: not flagged
    # here; the gateway still calls close(), so I7 applies.)
    if o.returned:
        plain = [c for c in o.start_calls if not c[2]]
        if len(plain) != 1:
            viol('I1-start_response-count', str(len(plain)),
                 'start_response called %d times without exc_info' %
                                                              len(plain))
        sr, ch = first('start_response'), first('chunk')
        if sr is not None and ch is not None and ch < sr:
            viol('I1-chunk-before-start_response', '',
                 'a body chunk was produced before start_response')
        if sr is None and ch is not None:
            viol('I1-chunk-without-start_response', '', 'body chunk without '
                                                          'start_response')
    # I2 -------------------------------------------------------------------
    for status, headers, _ in o.start_calls:
        if not isinstance(status, str) or not _STATUS.match(status):
            viol('I2-status', type(status).__name__, 'bad status line %r' %
                                                               (status,))
        if not isinstance(headers, list):
            viol('I2-headers-type', type(headers).__name__,
                                             'headers is not a list')
            continue
        ncl = 0
        for h in headers:
            if not (isinstance(h, tuple) and len(h) == 2 and
                      isinstance(h[0], str) and isinstance(h[1], str)):
                viol('I2-header-item', _hname(h), 'header %r is not a '
                                                 '(str, str) tuple' % (h,))
                continue
            if _ctl_chars(h[0]) or _ctl_chars(h[1]):
                viol('I2-header-ctl', h[0], 'control character in header %r'
                                                                    % (h,))
            if h[0].lower() == 'content-length':
                ncl += 1
        if ncl > 1:
            viol('I2-content-length-dup', '', 'Content-Length sent %d times'
                                                                     % ncl)
    # I3 -------------------------------------------------------------------
    for c in o.chunks:
        if not isinstance(c, bytes):
            viol('I3-chunk-type', type(c).__name__, 'body chunk of type %s' %
                                                         type(c).__name__)
            break
    if read_err:
        # the stream failed under the application: the error may go to the
        # gateway, but the context that was created is closed all the same
        n_closed = len([e for e in ev if e[1] == 'ctx_closed'])
        n_created = len([e for e in ev if e[1] == 'ctx_created'])
        if n_created and n_closed != 1 and (o.exc_where == 'call' or
                      (o.returned and cons != 'drain_no_close')):
            viol('I7-closed-count-after-read-error', str(n_closed),
                 'wsgi.input.read() failed: method_context_created fired %d '
                 'times, method_context_closed %d times' % (n_created,
                                                           n_closed))
        return _result(case, o, V)
    if cl == 'garbage' and not is_wsdl and o.returned and o.exhausted:
        # a Content-Length that is not a number: a client error, no user code
        if uni.ctl.n_calls() != 0:
            viol('I5-user-code-ran-bad-length', '', 'user code ran for a '
                 'request whose Content-Length is not a number')
        if not canon.is_client_code(_fault_code(out_prot, o)):
            viol('I5-bad-length-not-refused', str(_fault_code(out_prot, o)),
                 'Content-Length "abc" answered with %r' % (o.status,))
    # I4 -------------------------------------------------------------------
    if o.exhausted and o.headers is not None and o.body is not None:
        clh = o.header('Content-Length')
        if clh is not None:
            if not clh.isdigit() or int(clh) != len(o.body):
                viol('I4-content-length', '', 'Content-Length %r but %d body '
                                       'bytes handed over' % (clh, len(o.body)))
    # I6 -------------------------------------------------------------------
    limit = ml
    if isinstance(cl, int):
        limit = min(limit, cl)
    if o.bytes_read > limit:
        viol('I6-read-bound', '', 'read %d bytes from wsgi.input; limit %d '
             '(max_content_length=%d, declared=%r)' % (o.bytes_read, limit,
                                                                  ml, cl))
    if o.unbounded_reads:
        viol('I6-unbounded-read', '', 'read() without a size')
    # I5 -------------------------------------------------------------------
    if isinstance(cl, int) and cl > ml and not is_wsdl and o.returned \
                                                       and o.exhausted:
        if uni.ctl.n_calls() != 0:
            viol('I5-user-code-ran', '', 'user code ran for a request whose '
                 'declared length %d exceeds max_content_length %d' % (cl, ml))
        code = _fault_code(out_prot, o)
        if code != 'Client.RequestTooLong':
            viol('I5-not-refused', str(code), 'declared length %d > limit %d '
                 'answered with %r / fault code %r' % (cl, ml, o.status, code))
        elif fam != 'soap' and not (o.status or '').startswith('413'):
            viol('I5-status', (o.status or '')[:3], 'RequestTooLong sent with '
                                               'status %r' % (o.status,))
    # I7 -------------------------------------------------------------------
    if o.returned and cons != 'drain_no_close':
        n_closed = len([e for e in ev if e[1] == 'ctx_closed'])
        n_created = len([e for e in ev if e[1] == 'ctx_created'])
        if n_created != 1:
            viol('I7-created-count', str(n_created), 'method_context_created '
                                           'fired %d times' % n_created)
        if n_closed != 1:
            viol('I7-closed-count', str(n_closed), 'method_context_closed '
                 'fired %d times (consumer %s)' % (n_closed, cons))
        else:
            t_closed = first('ctx_closed')
            t_ret = first('return')
            if t_closed < t_ret:
                viol('I7-closed-before-return', '', 'context closed before '
                     'the WSGI callable returned the response iterable')
            elif o.exhausted:
                t_last = last('chunk') or t_ret
                if t_closed < t_last:
                    viol('I7-closed-before-last-chunk', '', 'context closed '
                                  'before the last body chunk was handed over')
            elif o.exc_where == 'iterate':
                pass    # closing when the iteration fails is legitimate
            else:
                t_close = first('close')
                if t_closed < t_close:
                    viol('I7-closed-before-abort', '', 'context closed before '
                         'the consumer stopped iterating (abort)')
        # the context's resources are released with it, every one of them,
        # whether or not close() of another one failed
        for f in simfiles:
            if f.close_calls != 1:
                viol('I7-file-close-count', str(f.close_calls), 'ctx.files[%d]'
                     ' of %d closed %d times (close() of #%d fails)' % (
                      f.idx, len(simfiles), f.close_calls, case['files'][1]))
                break
        if simfiles and case['files'][1] in range(len(simfiles)):
            o.fired['file_close_error'] = 1
        # ... and so is the file the response body is streamed from, however
        # few chunks the gateway has pulled before calling close()
        for h in handles:
            if h.close_calls < 1:
                viol('I7-response-file-open', str(len(o.chunks)), 'the file '
                     'the response was streamed from is still open after the '
                     'request is over (%d chunks pulled, consumer %s)' % (
                                                      len(o.chunks), cons))
            if h.bad_read is not None and h.reads > h.bad_read:
                o.fired['response_file_read_error'] = 1
    return _result(case, o, V)


def _hname(h):
    try:
        return str(h[0])[:30]
    except Exception:
        return type(h).__name__


def _fault_code(out_prot, o):
    try:
        if out_prot == 'httprpc':
            f = canon.decode_httprpc_fault(o.body or b'')
            return f[0] if f else None
        kind, f = canon.decode_fault(out_prot, o.body)
        return f[0] if kind == 'fault' else None
    except canon.Undecodable as e:
        return 'UNDECODABLE'


def _rsig(case):
    """Coarse, line-number-free description of where the violation shows."""
    r = case['rclass']
    k = r[0]
    if k == 'ok':
        cls = 'ok'
    elif k == 'gen':
        cls = 'gen%s' % ('0' if r[1] == 0 else 'N')
    elif k == 'genraise':
        cls = 'genraise@%s' % ('0' if r[1] == 0 else 'later')
    elif k == 'fault':
        cls = 'fault'
    else:
        cls = k
    out = case['out_prot']
    fam = 'xmlfam' if out in XML_FAMILY else out
    return '%s|out=%s|chunked=%s' % (cls, fam, case['chunked'])


def _result(case, o, V):
    fired = dict(o.fired)
    cl = case['cl_mode']
    if cl != 'equal':
        fired['content_length_' + cl] = 1
    nontrivial = bool(fired) or case['rclass'][0] not in ('ok',)
    sig = digest([case['rclass'][0], str(case['rclass'][1:2]),
                  case['in_prot'], case['out_prot'], case['validator'],
                  sorted(fired), case['block_length'], case['ml_mode'],
                  case['chunked'], case['consumer']])
    return {
        'violations': V,
        'fired': fired,
        'probes': {
            'multi_block_read': 1 if len([e for e in o.events
                                  if e[1] == 'read']) > 1 else 0,
            'limit_refused': 1 if (o.status or '').startswith('413') else 0,
            'callable_raised': 1 if o.exc_where == 'call' else 0,
            'aborted_mid_stream': fired.get('consumer_abort', 0),
        },
        'signature': sig,
        'nontrivial': nontrivial,
        'steps': len(o.events),
        'simtime': 0.0,
        'digest': digest([[list(e) for e in o.events], o.status,
                          [list(h) if isinstance(h, tuple) else repr(h)
                           for h in (o.headers or [])]
                          if isinstance(o.headers, list) else repr(o.headers),
                          canon.mask(o.body) if o.body is not None else None]),
        'summary': {'status': o.status, 'events': len(o.events),
                    'exc': type(o.exc).__name__ if o.exc else None,
                    'complete': bool(o.exhausted and o.closed
                                     and o.exc is None)},
    }


def minimize(case, sig):
    """Simplify knobs towards defaults while the signature persists."""
    cur = dict(case)
    defaults = [('plan_kind', 'full'), ('cl_mode', 'equal'),
                ('ml_mode', 'big'), ('block_length', 8192),
                ('consumer', ['drain', 0]), ('validator', None)]
    for k, v in defaults:
        if cur[k] == v:
            continue
        trial = dict(cur)
        trial[k] = v
        try:
            r = run_case(trial)
        except Exception:
            continue
        if any(x['sig'] == sig for x in r['violations']):
            cur = trial
    return cur
