"""C10 — hostile or malformed requests end in a client fault, never a crash.

Decided here for the transport-fault family: the byte strings a faulty network
makes out of valid traffic (prefix truncation at every offset, bit flips, lost
bytes, duplicated / swapped / zero-filled segments, inserted garbage, trailing
garbage under a lying Content-Length, burst damage that overwrites one leaf-value
span with a seeded token), plus empty and random-byte bodies.  Half of
the point corruptions are aimed at the byte spans of leaf values.  Oracle: no
escaping exception; a normal response or a Client-family fault document of the
output protocol (4xx over HTTP for non-SOAP); never a Server fault; user function
not run when a fault is sent (DESIGN.md section 4, C10)."""

import base64

from sim import bootstrap
bootstrap()

from sim.rng import Streams, derive
from sim.universe import (Universe, make_protocol, validators_for,
                 WsgiApplication, PROTOCOLS, XML_FAMILY, SOAP_FAMILY, Ctl,
                 Request, encode_request, IN_PROTOCOLS)
from sim.gateway import call_wsgi
from sim.drive import serverbase_call, make_server
from sim import canon
from sim.runner import digest

import spyne.application
import spyne.server.wsgi

ID = 'C10'
LEVEL = 'exploration'
BUDGET = {'quick': 300, 'thorough': 3000}
BLOCK = 4
BLOCK_TIMEOUT = 900
RULE = ('one evaluation = one corrupted request through one route. A case is '
        'a batch of corruptions of one valid request (method prims / echo / '
        'inners / strict of a fresh universe) for one (input protocol, '
        'validator, route): every prefix truncation (truncation cases) or a '
        'seeded mix of bitflip / drop / dup / swap / zero-fill / insert / '
        'trailing-garbage / random-body / empty (half aimed at leaf-value byte '
        'spans). Non-trivial = the corrupted bytes differ from the valid '
        'request and the server did not answer as for the valid one; distinct '
        '= distinct (protocol, validator, route, corruption kind, outcome '
        'class, fault code / escaping site) tuples.')
COMPONENTS = {
    'real': ['spyne.server._base.ServerBase pipeline', 'spyne.server.wsgi.'
             'WsgiApplication', 'spyne.protocol.{xml,soap11,soap12,json,yaml,'
             'msgpack,http} parsers and deserialisers', 'spyne.protocol._inbase'
             ' leaf parsers', 'spyne.model.binary', 'lxml / json / PyYAML / '
             'msgpack (atomic)'],
    'stub': ['the corrupting network (explicit corruption ops on valid '
             'requests)', 'WSGI gateway / ServerBase transport', 'total user '
             'functions (never raise, whatever they are handed)'],
}
ASSUMPTIONS = [
    'transport-fault family only: type-directed structural mutation (e.g. a '
    'JSON list where a date is expected) is input generation and is reached '
    'only where a byte-level corruption happens to produce it',
    'user functions are total, so every fault is attributable to the request',
    'one application instance serves a whole batch; a violation is confirmed '
    'on a fresh instance before it is reported',
]

ROUTES = ['wsgi', 'sb']
METHODS = ['prims', 'echo', 'inners', 'strict', 'noargs', 'multi', 'total',
           'item2']
KINDS = ['bitflip', 'drop', 'dup', 'swap', 'zero', 'insert', 'trailing',
         'random', 'empty', 'splice', 'splice', 'lose_block', 'charset',
         'repeat', 'truncate']
CHARSETS = ['latin-1', 'utf-16', 'utf-16-le', 'ascii', 'bogus-charset', '',
            'utf-8-sig', 'cp037', 'idna', 'utf_7']

# Burst damage inside a leaf value: what a value span looks like after a
# multi-byte burst error / a torn write / a buffer re-use.  (The span keeps
# its position in the document; only the bytes of one leaf change.)
SPLICE_TOKENS = [
    b'', b' ', b'-', b'--', b'+', b'.', b'0', b'-0', b'00', b'1e999', b'-1e999',
    b'NaN', b'nan', b'Infinity', b'-inf', b'0x10', b'1_000', b'1,5', b'1.5.2',
    b'99999999999999999999999999999999999999999', b'-99999999999999999999',
    b'2020-13-45', b'2020-02-30', b'2020-02-30Z', b'0000-00-00', b'2020-1-2',
    b'20200102', b'2020-01-02T25:61:61', b'2020-01-02T03:04:05+99:00',
    b'2020-01-02T03:04:05.1234567890123', b'2020-01-02T03:04', b'T03:04:05',
    b'24:00:00', b'03:04:60', b'3:4:5', b'03:04:05.', b'03:04:05Z+01:00',
    b'P', b'PT', b'P1', b'P1Y2M3DT4H5M6.7S', b'P9999999999D', b'-P1D',
    b'PT1e5S', b'P1DT', b'1D',
    b'00000000-0000-0000-0000-00000000000', b'g0000000-0000-0000-0000-'
    b'000000000000', b'{00000000-0000-0000-0000-000000000000}', b'urn:uuid:0',
    b'AAA', b'A===', b'A=A=', b'!!!!', b'AAAA AAAA', b'QUJD\nQUJD',
    b'true', b'false', b'TRUE', b'1', b'2', b'yes', b'null', b'None', b'~',
    b'[]', b'{}', b'[1]', b'{"a":1}', b'"x"', b"'x'", b'<x/>', b'&amp;',
    b'&#0;', b'&#xD800;', b'&bogus;', b'\xff\xfe', b'\xc3', b'\xe4\xb8',
    b'\x00', b'\x7f', b'\xef\xbb\xbf1', b'\xd9\xa1\xd9\xa2\xd9\xa3', b'\t1\n',
    b'a' * 70, b'9' * 1100,
    # a span can also be a tag / key name
    b'senv:Fault', b'senv:Body', b'senv:Header', b'senv:Envelope', b't:',
    b'faultcode', b'xmlns', b'xsi:nil', b'?',
    # msgpack scalars and containers (spans of msgpack documents are whole
    # encoded objects)
    b'\xc0', b'\xc2', b'\xc3', b'\x90', b'\x80', b'\x91\x01', b'\x81\xa1a\x01',
    b'\xa1x', b'\xc4\x01x', b'\x05', b'\xcb\x7f\xf8\x00\x00\x00\x00\x00\x00',
    b'\xd3\x80\x00\x00\x00\x00\x00\x00\x00', b'\xcf\xff\xff\xff\xff\xff\xff\xff\xff',
    b'\xc4\x02\xff\xfe', b'\xa2\xff\xfe', b'\xd6\xff\x00\x00\x00\x00', b'\xc1',
]
# what a whole element / member can be replaced by when a block is damaged
BLOCK_TOKENS = [b'', b'<!-- lost -->', b'<?x y?>', b'text', b'<![CDATA[<a/>]]>',
                b'<x xmlns="urn:other"/>', b'&amp;', b'&#38;', b'<a><b/></a>',
                b' ', b'\n']
CTYPES = ['multipart/related; boundary=xyz', 'multipart/related',
          'multipart/related; boundary="MIME"; type="text/xml"; start="<a>"',
          'application/xop+xml', 'text/xml; charset', 'text/xml;',
          'application/octet-stream', '', 'text/plain',
          'application/x-www-form-urlencoded', 'multipart/form-data; boundary=b']


def _configs():
    out = []
    for ip in IN_PROTOCOLS:
        for val in validators_for(ip):
            for route in ROUTES:
                if ip == 'httprpc' and route == 'sb':
                    continue
                out.append((ip, val, route))
    return out


CONFIGS = _configs()


def _pick_method(ip, val, k):
    ms = list(METHODS)
    if ip not in SOAP_FAMILY and val != 'lxml':
        ms.append('fmt')     # custom DateTime format: not for SOAP / xs:dateTime
    return ms[k % len(ms)]


def gen_cases(tier, verif_seed):
    rounds = {'quick': 48, 'thorough': 480}[tier]
    per_batch = {'quick': 140, 'thorough': 400}[tier]
    i = 0
    for rnd in range(rounds):
        for ci, (ip, val, route) in enumerate(CONFIGS):
            for mode in ('truncate', 'mix', 'mix', 'mix'):
                seed = derive(ID, verif_seed, i) & 0xffffffffffff
                i += 1
                rng = Streams(seed)['faults']
                yield {
                    'seed': seed,
                    'useed': derive(seed, 'universe') & 0xffffffff,
                    'in_prot': ip, 'validator': val, 'route': route,
                    'method': _pick_method(ip, val, i + rnd),
                    'mode': mode, 'n': per_batch,
                    'ops': None,        # explicit list in replay files
                }


def _target(uni, in_prot, method, ws):
    args = uni.gen_args(ws, method)
    # absent members travel as xsi:nil="true" elements in half of the XML
    # traffic
    req = encode_request(uni, in_prot, method, args,
                         xsi_nil=ws.random() < .5,
                         xsi_type=ws.random() < .5)
    if in_prot in SOAP_FAMILY and ws.random() < .5:
        # valid traffic often carries a (here: empty) SOAP Header
        marker = b'Body>'
        k = req.body.find(b'<', req.body.find(b'Envelope'))
        pfx = req.body[k + 1:req.body.find(b':', k)]
        req = req.with_body(req.body[:k] + b'<' + pfx + b':Header/>' +
                            req.body[k:])
    if PROTOCOLS[in_prot][1] == 'flat':
        data = req.qs.encode('latin1')
    else:
        data = req.body
    return req, data


def _spans(data):
    """Byte spans of leaf values: runs between markup characters that look
    like values (no structural bytes inside)."""
    spans = []
    structural = set(b'<>{}[]":,=&\n \t')
    start = None
    for i, c in enumerate(data):
        if c in structural:
            if start is not None and i - start >= 1:
                spans.append((start, i))
            start = None
        elif start is None:
            start = i
    if start is not None:
        spans.append((start, len(data)))
    return spans


def _blocks(data):
    """Byte ranges of balanced XML elements (start tag .. matching end tag,
    or a self-closing tag) -- the unit a block-aligned loss removes."""
    import re
    out = []
    stack = []
    for m in re.finditer(rb'<(/?)([A-Za-z_][\w.:-]*)[^<>]*?(/?)>', data):
        closing, name, selfclose = m.group(1), m.group(2), m.group(3)
        if selfclose:
            out.append((m.start(), m.end()))
        elif closing:
            while stack:
                n, st = stack.pop()
                if n == name:
                    out.append((st, m.end()))
                    break
        else:
            stack.append((name, m.start()))
    return [b for b in out if b[0] > 0]


def _msgpack_spans(data):
    """Byte spans of every encoded object (scalar or container) of a msgpack
    document, found by re-encoding the decoded sub-objects."""
    import msgpack
    try:
        doc = msgpack.unpackb(data, raw=False, strict_map_key=False)
    except Exception:
        return []
    spans = []

    def walk(o):
        try:
            enc = msgpack.packb(o, use_bin_type=True)
        except Exception:
            enc = None
        if enc:
            k = data.find(enc)
            if k > 0:
                spans.append((k, k + len(enc)))
        if isinstance(o, dict):
            for kk, v in o.items():
                walk(kk)
                walk(v)
        elif isinstance(o, (list, tuple)):
            for v in o:
                walk(v)
    walk(doc)
    return sorted(set(spans))


def _draw_ops(case, data, rng):
    n = len(data)
    if case['mode'] == 'truncate':
        ks = list(range(0, n))
        if len(ks) > case['n'] * 4:
            ks = sorted(rng.sample(ks, case['n'] * 4))
        return [['truncate', k] for k in ks]
    if case['in_prot'] in ('msgpack', 'msgpackrpc'):
        spans = _msgpack_spans(data) or [(0, max(1, n))]
    else:
        spans = _spans(data) or [(0, max(1, n))]
    ops = []
    for _ in range(case['n']):
        kind = rng.choice(KINDS[:-1])
        if rng.random() < .5:
            a, b = rng.choice(spans)
            pos = rng.randint(a, max(a, b - 1))
        else:
            pos = rng.randint(0, max(0, n - 1))
        if kind == 'bitflip':
            ops.append(['bitflip', pos, rng.randint(0, 7)])
        elif kind == 'drop':
            ops.append(['drop', pos, rng.choice((1, 1, 2, 5))])
        elif kind == 'dup':
            ops.append(['dup', pos, rng.randint(1, 12)])
        elif kind == 'repeat':
            # a stuck segment: 1..3 bytes delivered over and over
            # (lengths around 10 and 20 digits are where 32 / 64 bit
            # arithmetic in the parsers below overflows)
            ops.append(['repeat', pos, rng.randint(1, 3), rng.choice(
                          (2, 5, 7, 9, 10, 12, 14, 15, 16, 17, 19, 20, 40))])
        elif kind == 'swap':
            ops.append(['swap', pos, rng.randint(0, max(0, n - 1)),
                                                        rng.randint(1, 8)])
        elif kind == 'zero':
            ops.append(['zero', pos, rng.randint(1, 8)])
        elif kind == 'insert':
            ops.append(['insert', pos, base64.b16encode(bytes(bytearray(
                rng.randint(0, 255) for _ in range(rng.randint(1, 6)))))
                                                           .decode('ascii')])
        elif kind == 'trailing':
            ops.append(['trailing', base64.b16encode(bytes(bytearray(
                rng.randint(0, 255) for _ in range(rng.randint(1, 9)))))
                                                           .decode('ascii')])
        elif kind == 'splice':
            a, b = rng.choice(spans)
            # (token 0 is the empty string: the span is simply lost)
            ops.append(['splice', a, b, 0 if rng.random() < .2 else
                        rng.randrange(len(SPLICE_TOKENS))])
        elif kind == 'lose_block':
            # a lost block whose boundaries coincide with markup boundaries
            # (one whole element / one whole member)
            blocks = _blocks(data)
            if blocks:
                a, b = rng.choice(blocks)
                if rng.random() < .5:
                    ops.append(['drop', a, b - a])
                else:
                    ops.append(['block', a, b,
                                rng.randrange(len(BLOCK_TOKENS))])
            else:
                ops.append(['drop', pos, rng.randint(3, 30)])
        elif kind == 'charset':
            # the Content-Type header lies about the encoding / type of the
            # body
            if rng.random() < .5:
                ops.append(['charset', rng.choice(CHARSETS)])
            else:
                ops.append(['ctype', rng.choice(CTYPES)])
        elif kind == 'random':
            ops.append(['random', base64.b16encode(bytes(bytearray(
                rng.randint(0, 255) for _ in range(rng.randint(1, 40)))))
                                                           .decode('ascii')])
        else:
            ops.append(['empty'])
    return ops


def apply_op(data, op):
    k = op[0]
    n = len(data)
    if k == 'truncate':
        return data[:op[1]]
    if k == 'bitflip':
        if not n:
            return data
        p = op[1] % n
        return data[:p] + bytes([data[p] ^ (1 << op[2])]) + data[p + 1:]
    if k == 'drop':
        p = op[1] % max(1, n)
        return data[:p] + data[p + op[2]:]
    if k == 'dup':
        p = op[1] % max(1, n)
        return data[:p + op[2]] + data[p:p + op[2]] + data[p + op[2]:]
    if k == 'repeat':
        p = op[1] % max(1, n)
        return data[:p] + data[p:p + op[2]] * op[3] + data[p + op[2]:]
    if k == 'swap':
        a, b = sorted((op[1] % max(1, n), op[2] % max(1, n)))
        ln = min(op[3], b - a)
        if ln <= 0:
            return data
        return (data[:a] + data[b:b + ln] + data[a + ln:b] + data[a:a + ln]
                                                          + data[b + ln:])
    if k == 'zero':
        p = op[1] % max(1, n)
        ln = min(op[2], n - p)
        return data[:p] + b'\x00' * ln + data[p + ln:]
    if k == 'insert':
        p = op[1] % max(1, n)
        return data[:p] + base64.b16decode(op[2]) + data[p:]
    if k == 'trailing':
        return data + base64.b16decode(op[1])
    if k == 'random':
        return base64.b16decode(op[1])
    if k == 'empty':
        return b''
    if k in ('charset', 'ctype'):
        return data
    if k == 'block':
        return data[:op[1]] + BLOCK_TOKENS[op[3] % len(BLOCK_TOKENS)] + \
                                                            data[op[2]:]
    if k == 'splice':
        tok = SPLICE_TOKENS[op[3] % len(SPLICE_TOKENS)]
        return data[:op[1]] + tok + data[op[2]:]
    raise ValueError(op)


class _FaultStringSeam(object):
    """spyne.application.get_fault_string_from_exception is the funnel every
    'Internal Error' conversion goes through: rebinding it tells us which
    exception, raised where, became the Server fault."""

    def __init__(self):
        self.sites = []

    def __call__(self, e):
        self.sites.append('%s|%s' % (type(e).__name__, canon.exc_site(e)))
        return "Internal Error"

    def __enter__(self):
        self.o1 = spyne.application.get_fault_string_from_exception
        self.o2 = spyne.server.wsgi.get_fault_string_from_exception
        spyne.application.get_fault_string_from_exception = self
        spyne.server.wsgi.get_fault_string_from_exception = self
        return self

    def __exit__(self, *a):
        spyne.application.get_fault_string_from_exception = self.o1
        spyne.server.wsgi.get_fault_string_from_exception = self.o2


def _build(case):
    ctl = Ctl()
    uni = Universe(Streams(case['useed'])['universe'], ctl=ctl, n_prims=99)
    ip = case['in_prot']
    op = ip if ip != 'httprpc' else 'json'
    app = uni.make_app(make_protocol(ip, case['validator']), make_protocol(op))
    if case['route'] == 'wsgi':
        srv = WsgiApplication(app)
    else:
        srv = make_server(app)
    return uni, ctl, srv, op


def _one(case, uni, ctl, srv, out_prot, req, data, op, seam):
    """-> (violations, outcome class, detail)"""
    bad = apply_op(data, op)
    ip = case['in_prot']
    extra_cl = None
    if PROTOCOLS[ip][1] == 'flat':
        r = Request(req.verb, req.path, bad.decode('latin1'), req.ctype, b'',
                                                                  req.label)
    else:
        r = req.with_body(bad)
    if op[0] == 'charset' and r.ctype is not None:
        r.ctype = '%s; charset=%s' % (r.ctype.split(';')[0], op[1])
    if op[0] == 'ctype' and r.ctype is not None:
        r.ctype = op[1]
    before = ctl.n_calls()
    del seam.sites[:]
    status = None
    if case['route'] == 'wsgi':
        o = call_wsgi(srv, r)
        exc, where, body, status = o.exc, o.exc_where, o.body, o.status
    else:
        o = serverbase_call(srv, r.body)
        exc, where, body = o.exc, o.exc_stage, o.body
    calls = ctl.n_calls() - before
    V = []
    okind = op[0]
    tag = 'in=%s|val=%s|route=%s' % (ip, case['validator'], case['route'])

    def viol(sig, what):
        V.append({'sig': sig, 'what': '%s [%s op=%s]' % (what, tag, op),
                  'op': op})

    if exc is not None:
        site = canon.exc_site(exc)
        viol('escaped|%s|%s' % (type(exc).__name__, site),
             '%s (%s) escaped request processing at %s (%s)' % (
                 type(exc).__name__, canon.mask(str(exc))[:100], site, where))
        return V, 'escaped', site
    try:
        kind, f = canon.decode_fault(out_prot, body)
    except canon.Undecodable as e:
        viol('undecodable|%s' % tag, 'response is not a well-formed %s '
                                    'document: %s' % (out_prot, str(e)[:100]))
        return V, 'undecodable', ''
    if kind == 'fault':
        code = f[0]
        if not canon.is_client_code(code):
            site = seam.sites[-1] if seam.sites else 'code=%s' % (code,)
            viol('server-fault|%s' % site, 'malformed request answered with '
                 'fault code %r (%r): %s' % (code, f[1], site))
        elif case['route'] == 'wsgi' and out_prot not in SOAP_FAMILY and \
                                      not (status or '').startswith('4'):
            viol('status|%s|%s' % ((status or '')[:3], code), 'Client fault '
                                 '%r sent with HTTP status %r' % (code, status))
        if calls != 0:
            viol('fn-ran-on-fault|%s' % tag, 'user function ran %d time(s) '
                 'for a request answered with fault %r' % (calls, code))
        return V, 'fault', str(code)
    if calls > 1:
        viol('fn-ran-twice|%s' % tag, 'user function ran %d times' % calls)
    return V, 'normal', ''


def run_case(case):
    uni, ctl, srv, out_prot = _build(case)
    ws = Streams(case['seed'])['workload']
    req, data = _target(uni, case['in_prot'], case['method'], ws)
    ops = case['ops']
    if ops is None:
        ops = _draw_ops(case, data, Streams(case['seed'])['faults2'])
    V = []
    fired = {}
    classes = set()
    log = []
    with _FaultStringSeam() as seam:
        # the valid request must succeed, else nothing here means anything
        v0, cls0, _ = _one(case, uni, ctl, srv, out_prot, req, data,
                                                    ['trailing', ''], seam)
        if cls0 != 'normal' or v0:
            raise AssertionError('valid request not accepted: %r %r %r' % (
                                     case, cls0, [v['what'] for v in v0]))
        for op in ops:
            v, cls, det = _one(case, uni, ctl, srv, out_prot, req, data, op,
                                                                      seam)
            fired[op[0]] = fired.get(op[0], 0) + 1
            classes.add((op[0], cls, det))
            log.append([op, cls, det])
            if v and case['ops'] is None:
                # confirm on a fresh instance (no history dependence)
                sub = dict(case)
                sub['ops'] = [op]
                v2 = run_case(sub)['violations']
                v = [x for x in v if any(y['sig'] == x['sig'] for y in v2)]
            V.extend(v)
    return {
        'violations': V,
        'fired': fired,
        'probes': {'answered_with_client_fault': len([1 for l in log
                                                  if l[1] == 'fault']),
                   'still_accepted': len([1 for l in log
                                                  if l[1] == 'normal'])},
        'signature': digest([case['in_prot'], case['validator'],
                             case['route'], sorted(classes)]),
        'nontrivial': any(c[1] != 'normal' for c in classes),
        'steps': len(ops),
        'simtime': 0.0,
        'digest': digest(log),
        'summary': {'outcomes': sorted(set((c[0], c[1]) for c in classes))[:12]},
        'evaluations': len(ops),
        'distinct_keys': [digest([case['in_prot'], case['validator'],
                                  case['route'], list(c)])
                          for c in sorted(classes) if c[1] != 'normal'],
    }


def minimize(case, sig):
    r = run_case(case)
    for v in r['violations']:
        if v['sig'] == sig:
            small = dict(case)
            small['ops'] = [v['op']]
            return small
    return case
