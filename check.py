#!/venv/bin/python
"""Entry point of every registered check.

    check.py <ID> --tier quick|thorough
    check.py <ID> --replay <file> [--sigs]
    check.py selftest [--n N]

Exit codes: 0 property held on everything explored, 1 violation (a line
`VIOLATION property=<id> replay=<path>` is printed), 2 harness error."""

import argparse
import importlib
import json
import os
import sys

HERE = os.path.dirname(os.path.abspath(__file__))


def _reexec_with_hashseed():
    # str-hash order must not be a hidden input: fix it (the checks that search
    # over hash seeds start child interpreters with explicit seeds).
    if os.environ.get('PYTHONHASHSEED') != '0':
        env = dict(os.environ)
        env['PYTHONHASHSEED'] = '0'
        os.execve(sys.executable, [sys.executable] + sys.argv, env)


def load(prop_id):
    if HERE not in sys.path:
        sys.path.insert(0, HERE)
    return importlib.import_module('props.%s' % prop_id.lower())


def main():
    _reexec_with_hashseed()
    if HERE not in sys.path:
        sys.path.insert(0, HERE)
    ap = argparse.ArgumentParser()
    ap.add_argument('prop')
    ap.add_argument('--tier', default=os.environ.get('VERIF_TIER', 'quick'))
    ap.add_argument('--replay')
    ap.add_argument('--sigs', action='store_true')
    ap.add_argument('--workers', type=int, default=None)
    ap.add_argument('--budget', type=float, default=None)
    ap.add_argument('--n', type=int, default=None)
    args = ap.parse_args()
    seed = int(os.environ.get('VERIF_SEED', '0') or 0)

    from sim import runner
    if args.prop == 'selftest':
        from sim import selftest
        sys.exit(selftest.main(args.n or 60))

    prop = load(args.prop)
    if args.replay:
        doc = json.load(open(args.replay))
        if 'cases' in doc:
            # history replay: the cases run in order in this one process
            r = {'violations': []}
            for case in doc['cases']:
                rr = prop.run_case(case)
                r['violations'].extend(rr['violations'])
        else:
            r = prop.run_case(doc['case'])
        known, _ = runner.load_known(prop.ID)
        want = (doc.get('expect') or {}).get('sig')
        rc = 0
        for v in r['violations']:
            if args.sigs:
                print('SIG %s' % v['sig'])
            if v['sig'] in known:
                print('KNOWN-FINDING: property=%s %s' % (prop.ID,
                                                  known[v['sig']]['what']))
                continue
            rc = 1
            if not args.sigs:
                print('VIOLATION property=%s replay=%s' % (prop.ID,
                                                            args.replay))
                print('  sig: %s' % v['sig'])
                print('  what: %s' % v['what'])
        if want is not None and not args.sigs:
            print('expected signature %s: %s' % (want, 'REPRODUCED' if any(
                v['sig'] == want for v in r['violations']) else
                'not reproduced'))
        sys.exit(rc)
    if args.tier not in ('quick', 'thorough'):
        args.tier = 'quick'
    if args.n is not None:
        orig = prop.gen_cases

        def limited(tier, s, _n=args.n):
            for i, c in enumerate(orig(tier, s)):
                if i >= _n:
                    break
                yield c
        prop.gen_cases = limited
        prop.N_CASES_IGNORE = True
    # needles found once (by a red team, a soak, another seed) that the seeded
    # sample of this tier reaches only now and then: their replay files are
    # kept under regress/ and re-run on every check
    rc_regress = 0
    known, _ = runner.load_known(prop.ID)
    import glob
    for f in sorted(glob.glob(os.path.join(HERE, 'regress',
                                           '%s-*.json' % prop.ID))):
        doc = json.load(open(f))
        cases = doc['cases'] if 'cases' in doc else [doc['case']]
        for case in cases:
            for v in prop.run_case(case)['violations']:
                if v['sig'] in known:
                    continue
                rc_regress = 1
                print('VIOLATION property=%s replay=%s' % (prop.ID, f))
                print('  sig: %s' % v['sig'])
                print('  what: %s' % v['what'])
    rc = runner.run_check(prop, args.tier, seed, workers=args.workers,
                          budget_s=args.budget)
    sys.exit(rc or rc_regress)


if __name__ == '__main__':
    main()
