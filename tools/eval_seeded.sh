#!/bin/bash
# usage: eval_seeded.sh <ID> <dir with patch.diff demo.py> [check args]
# Confirms a seeded change in a scratch worktree (applies, suite unchanged, demo fails with / passes without),
# then applies it to /repo, runs the property's quick check, and reverts.
set -u
id="$1"; dir="$2"; shift 2
wt=/tmp/wt-eval-$$
git -C /repo worktree add -q --detach $wt HEAD || exit 9
trap 'git -C /repo worktree remove --force $wt >/dev/null 2>&1' EXIT
echo "== demo without patch"; (cd $wt; PYTHONPATH=$wt timeout 300 /venv/bin/python $dir/demo.py) >/tmp/eval_demo0.txt 2>&1; echo "exit=$?"
git -C $wt apply $dir/patch.diff || { echo "PATCH DOES NOT APPLY"; exit 8; }
echo "== demo with patch"; (cd $wt; PYTHONPATH=$wt timeout 300 /venv/bin/python $dir/demo.py) >/tmp/eval_demo1.txt 2>&1; echo "exit=$?"; tail -3 /tmp/eval_demo1.txt | cut -c1-300
echo "== baseline suite with patch"; /venv/bin/python /verif/tools/baseline.py --repo $wt -n 8
echo "== check on /repo with patch"
/verif/tools/try_patch.sh $dir/patch.diff $id "$@"
