#!/venv/bin/python
"""Run /repo's pinned baseline suite (guard off) and compare with BASELINE.json's
stable_pass list.  Exit 0 when every stable_pass test still passes."""
import json, os, subprocess, sys, tempfile
import xml.etree.ElementTree as ET
base = json.load(open('/root/.vp/BASELINE.json'))
fd, path = tempfile.mkstemp(suffix='.xml', dir='/var/tmp'); os.close(fd)
env = dict(os.environ); env.pop('ARSKOM_SPYNE_VERIF', None)
extra = sys.argv[1:]
repo = '/repo'
if extra and extra[0] == '--repo':
    repo = extra[1]
    extra = extra[2:]
cmd = ['/venv/bin/python', '-m', 'pytest', '-q', '-p', 'no:cacheprovider',
       '--timeout=900', '--continue-on-collection-errors',
       '--junitxml=' + path] + extra
subprocess.run(cmd, cwd=repo, env=env, stdout=subprocess.DEVNULL,
               stderr=subprocess.DEVNULL)
passed = set()
for tc in ET.parse(path).getroot().iter('testcase'):
    if not any(c.tag in ('failure', 'error', 'skipped') for c in tc):
        passed.add('%s::%s' % (tc.get('classname'), tc.get('name')))
os.unlink(path)
want = set(base['stable_pass'])
missing = sorted(want - passed)
print('stable_pass=%d passing_now=%d missing=%d' % (len(want), len(passed), len(missing)))
for m in missing[:40]:
    print('  MISSING', m)
sys.exit(1 if missing else 0)
