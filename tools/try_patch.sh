#!/bin/bash
# usage: try_patch.sh <patch.diff> <ID> [extra check.py args]   -- applies the patch to /repo, runs the check, reverts
set -u
patch="$1"; shift; id="$1"; shift
cd /repo || exit 9
if ! git diff --quiet; then echo "repo dirty"; exit 9; fi
git apply "$patch" || { echo "patch does not apply"; exit 9; }
cd /verif
timeout 1800 /venv/bin/python check.py "$id" "$@" 2>&1 | grep -E "^(VIOLATION|KNOWN|HARNESS|  sig|C[0-9]+:)" | cut -c1-300 | head -30
rc=${PIPESTATUS[0]}
git -C /repo checkout -- .
echo "exit=$rc"
