#!/venv/bin/python
"""Sensitivity self-test: every kept seeded change (/verif/seeded/<id>/) is
applied to a scratch worktree of /repo HEAD (under /var/tmp, removed afterwards)
and the quick check of its property is run against that copy (VERIF_REPO).  The
check must exit 1 with a VIOLATION line.  /repo itself is never touched.

usage: sensitivity.py [ids...]      (default: all)
"""
import json, os, subprocess, sys, shutil, time
VERIF = os.path.dirname(os.path.dirname(os.path.abspath(__file__)))
SEEDED = os.path.join(VERIF, 'seeded')
ids = sys.argv[1:] or sorted(d for d in os.listdir(SEEDED)
                             if os.path.isdir(os.path.join(SEEDED, d)))
results = {}


def _save(results):
    rp = os.path.join(VERIF, 'seeded', 'RESULTS.json')
    allres = {}
    if os.path.exists(rp):
        try:
            allres = json.load(open(rp))
        except Exception:
            allres = {}
    allres.update(results)
    json.dump(allres, open(rp, 'w'), indent=1, sort_keys=True)


for sid in ids:
    d = os.path.join(SEEDED, sid)
    meta = json.load(open(os.path.join(d, 'meta.json')))
    prop = meta['property']
    if meta.get('obsolete'):
        # the tree has since been changed so that this edit no longer alters
        # behaviour (see meta['obsolete'])
        print('%s: obsolete, skipped' % sid)
        continue
    wt = '/var/tmp/verif-mut-%s-%d' % (sid, os.getpid())
    subprocess.check_call(['git', '-C', '/repo', 'worktree', 'add', '-q',
                           '--detach', wt, 'HEAD'])
    t0 = time.time()
    try:
        if subprocess.call(['git', '-C', wt, 'apply',
                            os.path.join(d, 'patch.diff')]) != 0:
            results[sid] = {'exit': None, 'violations': 0, 'sigs': [],
                            'caught': False, 'stale_patch': True,
                            'wall_s': 0}
            print('%s: PATCH DOES NOT APPLY to the current tree' % sid)
            continue
        env = dict(os.environ)
        env['VERIF_REPO'] = wt
        scratch = wt + '-out'
        os.makedirs(scratch, exist_ok=True)
        env['VERIF_EVIDENCE_DIR'] = scratch
        env['VERIF_REPLAY_DIR'] = scratch
        p = subprocess.run(['timeout', '1800', sys.executable,
                            os.path.join(VERIF, 'check.py'), prop, '--tier',
                            'quick'], stdout=subprocess.PIPE,
                           stderr=subprocess.STDOUT, env=env, cwd=VERIF)
        out = p.stdout.decode('utf8', 'replace')
        viol = [l for l in out.splitlines() if l.startswith('VIOLATION')]
        sigs = [l.strip() for l in out.splitlines()
                if l.startswith('  sig:')][:3]
        results[sid] = {'exit': p.returncode, 'violations': len(viol),
                        'sigs': sigs, 'caught': p.returncode == 1 and
                        bool(viol), 'wall_s': round(time.time() - t0, 1)}
    finally:
        subprocess.call(['git', '-C', '/repo', 'worktree', 'remove',
                         '--force', wt])
        shutil.rmtree(wt + '-out', ignore_errors=True)
    _save(results)
    print('%s: %s (exit %s, %d VIOLATION lines, %.0fs) %s' % (
        sid, 'CAUGHT' if results[sid]['caught'] else 'MISSED',
        results[sid]['exit'], results[sid]['violations'],
        results[sid]['wall_s'], '; '.join(results[sid]['sigs'])))
    sys.stdout.flush()
rp = os.path.join(VERIF, 'seeded', 'RESULTS.json')
allres = {}
if os.path.exists(rp):
    try:
        allres = json.load(open(rp))
    except Exception:
        allres = {}
allres.update(results)
json.dump(allres, open(rp, 'w'), indent=1, sort_keys=True)
missed = [k for k, v in results.items() if not v['caught']]
print('caught %d / %d; missed: %s' % (len(results) - len(missed),
                                        len(results), missed))
sys.exit(1 if missed else 0)
