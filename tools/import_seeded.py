#!/venv/bin/python
"""import_seeded.py <src dir> <id> <property> <round> <caught_by> <first:yes|no>
Copies patch.diff/demo.py of a sub-agent's change into /verif/seeded/<id>/ and
writes meta.json in the house format from the agent's meta.json."""
import json, os, shutil, subprocess, sys
src, sid, prop, rnd, caught, first = sys.argv[1:7]
dst = os.path.join(os.path.dirname(os.path.dirname(os.path.abspath(__file__))), 'seeded', sid)
os.makedirs(dst, exist_ok=True)
shutil.copy(os.path.join(src, 'patch.diff'), dst)
shutil.copy(os.path.join(src, 'demo.py'), dst)
m = json.load(open(os.path.join(src, 'meta.json')))
files = [l[6:].strip() for l in open(os.path.join(src, 'patch.diff')) if l.startswith('+++ b/')]
meta = {
 'id': sid, 'property': prop, 'round': int(rnd),
 'breaks': str(m.get('clause', ''))[:600],
 'needs_to_manifest': str(m.get('trigger', ''))[:900],
 'description': str(m.get('description', ''))[:900],
 'files_changed': files,
 'author': 'independent sub-agent given only the property text(s) and a scratch worktree of /repo (nothing from /verif)',
 'confirmed_by_me': {
  'how': 'tools/eval_seeded.sh <ID> <dir>: fresh scratch worktree of /repo HEAD; demo.py exits 0 without the patch and 1 with it; tools/baseline.py --repo <worktree> -n 8: all 696 stable_pass tests still pass with the patch; then the patch applied to /repo, quick check, reverted',
  'baseline_with_patch': 'stable_pass=696 missing=0',
  'demo_without_patch': 'exit 0', 'demo_with_patch': 'exit 1'},
 'caught_by': [caught],
 'caught_at_first_attempt': first == 'yes',
}
json.dump(meta, open(os.path.join(dst, 'meta.json'), 'w'), indent=1)
print('imported', sid)
