"""Deterministic thread scheduler: real threads, exactly one unparked at a time
(baton passing over one Condition); every spyne source line executed by a
simulated thread is a step and a possible pre-emption point (sys.monitoring LINE
events, Python 3.12).  Who runs next is drawn from a seeded PRNG or read from a
recorded schedule.  spyne's locks are replaced by scheduler-aware SimLocks."""

import os
import sys
import threading
import types

from . import REPO

_RealLock = threading.Lock
_RealRLock = threading.RLock
_RealCondition = threading.Condition
_RealThread = threading.Thread
_get_ident = threading.get_ident

SPYNE_ROOT = os.path.realpath(os.path.join(REPO, 'spyne')) + os.sep
TOOL = 4
_mon = sys.monitoring

CURRENT = None      # the active Scheduler, if any


class SimAbort(BaseException):
    """Raised inside simulated threads to unwind them when a run is aborted
    (deadlock, step cap).  BaseException so `except Exception` cannot eat it."""


class SelfDeadlock(RuntimeError):
    """A single-threaded run asked for a lock it already holds (it was never
    released on some earlier path): the real lock would block for ever."""


class SimLock(object):
    """threading.Lock / RLock with the real semantics; a contended acquire is a
    scheduler decision instead of a kernel wait.  Outside a simulation (or
    from a thread the scheduler does not own) it degenerates to bookkeeping."""

    def __init__(self, reentrant=False, name=None):
        self.reentrant = reentrant
        self.owner = None
        self.count = 0
        self.name = name
        self.contended = 0

    def acquire(self, blocking=True, timeout=-1):
        s = CURRENT
        me = s.me() if s is not None else None
        if me is None:
            me = ('ext', _get_ident())
            if self.owner is not None and self.owner != me and \
                                        not isinstance(self.owner, tuple):
                raise RuntimeError('SimLock held by a simulated thread is '
                                   'being taken from outside the simulation')
            if self.owner == me and self.count > 0 and not self.reentrant:
                # one thread, nobody else to release it: in a real process
                # this acquire never returns
                raise SelfDeadlock('non-reentrant %s taken again by the '
                                   'thread that holds it' % self.name)
            self.owner = me
            self.count += 1
            return True
        while self.owner is not None and not (self.reentrant and
                                                       self.owner == me):
            if self.owner == me:
                # non-reentrant lock re-acquired by its owner: real deadlock
                s.deadlock('thread %d re-acquires non-reentrant lock %s' % (
                                                           me, self.name))
            if not blocking:
                return False
            self.contended += 1
            s.block(me, self)
        self.owner = me
        self.count += 1
        return True

    def release(self):
        if self.count <= 0:
            raise RuntimeError('release unlocked lock')
        self.count -= 1
        if self.count == 0:
            self.owner = None

    def locked(self):
        return self.owner is not None

    def __enter__(self):
        self.acquire()
        return self

    def __exit__(self, *a):
        self.release()


def seam_point(site):
    s = CURRENT
    if s is not None:
        s.seam_point(site)


class SchemaProxy(object):
    """Stand-in for the Python-visible surface of lxml.etree.XMLSchema.  The
    validation itself is lxml's; what is re-stated in Python is the glue
    around it (lxml's _Validator.assertValid / validate / error_log), because
    the real thing releases the GIL while validating: another thread can run
    between the C-level validation and the moment its outcome is read from the
    validator's -- shared -- error log.  seam_point() marks those places."""

    def __init__(self, real):
        self._real = real

    def __call__(self, doc):
        seam_point('lxml:XMLSchema.__call__:enter')
        ok = self._real(doc)    # clears the shared log, validates
        seam_point('lxml:XMLSchema.__call__:leave')
        return ok

    validate = __call__

    @property
    def error_log(self):
        return self._real.error_log

    def assertValid(self, doc):
        from lxml import etree
        if not self(doc):
            log = self._real.error_log
            msg = log[0].message if len(log) else \
                                        'Document does not comply with schema'
            raise etree.DocumentInvalid(msg, log)

    def assert_(self, doc):
        if not self(doc):
            raise AssertionError(self._real.error_log.last_error)


def _make_threading_shim():
    """A stand-in for the `threading` module as seen by spyne modules: Lock
    and RLock build SimLocks, everything else is the real thing."""
    shim = types.ModuleType('threading')
    shim.__dict__.update(threading.__dict__)
    shim.Lock = lambda: SimLock(False, 'Lock')
    shim.RLock = lambda: SimLock(True, 'RLock')
    return shim


_installed = False


def install_seams():
    """Rebind spyne's lock factories (module attribute `threading` of the spyne
    modules that create locks) and the locks that already exist (memoize
    instances are created at import time).  Idempotent."""
    global _installed
    if _installed:
        return
    import spyne.server.wsgi
    import spyne.util.memo
    import spyne.model._base
    shim = _make_threading_shim()
    for mod in (spyne.server.wsgi, spyne.util.memo, spyne.model._base):
        if getattr(mod, 'threading', None) is threading:
            mod.threading = shim
    # any other spyne module that imported threading
    for name, mod in list(sys.modules.items()):
        if name.startswith('spyne.') and getattr(mod, 'threading', None) \
                                                          is threading:
            f = getattr(mod, '__file__', '') or ''
            if '/twisted/' in f or '/test/' in f:
                continue
            mod.threading = shim
    for memo in spyne.util.memo.memoize.registry:
        if not isinstance(getattr(memo, 'lock', None), SimLock):
            memo.lock = SimLock(True, 'memoize.lock')
    _installed = True


class Scheduler(object):
    """One concurrent run.

    plan: {'pct': [global step indices], 'region': set of (file, func),
           'p': float, 'rng': random.Random}            (exploration mode)
       or {'replay': [[thread, local_step, to], ...], 'forced': [to, ...]}
    """

    def __init__(self, n, plan, step_cap=400000):
        self.n = n
        self.cv = _RealCondition(_RealLock())
        self.current = None
        self.by_ident = {}
        self.alive = set()
        self.blocked = {}           # idx -> SimLock
        self.step = 0
        self.local = [0] * n
        self.step_cap = step_cap
        self.aborted = None         # reason
        self.decisions = []         # [thread, local_step, to, kind, site]
        self.forced_log = []
        self.region_hits = {}
        self.errors = {}            # idx -> exception escaping the body
        self.rng = plan.get('rng')
        self.pct = sorted(plan.get('pct', ()))
        self.region = plan.get('region') or set()
        self.p = plan.get('p', 0.0)
        self.replay = None
        if 'replay' in plan:
            self.replay = dict(((d[0], d[1]), d[2]) for d in plan['replay'])
            self.forced = list(plan.get('forced', ()))
        self._region_cache = {}
        self._was_in_region = [False] * n
        self.seam_steps = 0
        self.p_seam = plan.get('p_seam', 0.3)
        self.opcodes = bool(plan.get('opcodes'))
        self.p_instr = plan.get('p_instr', self.p / 3.0)
        self._instr_codes = []
        self.instr_steps = 0
        self.seen = set()
        self.thread_codes = [set() for _ in range(n)]
        self.in_region_steps = 0

    def seen_functions(self):
        out = set()
        for code in self.seen:
            rel = os.path.realpath(code.co_filename)[len(SPYNE_ROOT):]
            out.add((rel, code.co_name))
        return out

    def shared_functions(self):
        """(rel, func) executed by at least two different threads."""
        count = {}
        for codes in self.thread_codes:
            names = set()
            for code in codes:
                rel = os.path.realpath(code.co_filename)[len(SPYNE_ROOT):]
                names.add((rel, code.co_name))
            for nm in names:
                count[nm] = count.get(nm, 0) + 1
        self._executed_by_any = set(count)
        return set(k for k, v in count.items() if v >= 2)

    def executed_functions(self):
        self.shared_functions()
        return set(self._executed_by_any)

    # -- identity ------------------------------------------------------------
    def me(self):
        return self.by_ident.get(_get_ident())

    # -- running ---------------------------------------------------------------
    def run(self, bodies):
        global CURRENT
        assert len(bodies) == self.n
        threads = []
        for i, body in enumerate(bodies):
            t = _RealThread(target=self._wrap, args=(i, body),
                                                 name='sim-%d' % i, daemon=True)
            threads.append(t)
        self.alive = set(range(self.n))
        CURRENT = self
        _mon.use_tool_id(TOOL, 'verif-sim')
        _mon.register_callback(TOOL, _mon.events.LINE, self._on_line)
        _mon.register_callback(TOOL, _mon.events.PY_RETURN, self._on_leave)
        if self.opcodes:
            _mon.register_callback(TOOL, _mon.events.INSTRUCTION,
                                                          self._on_instr)
        try:
            for t in threads:
                t.start()
            with self.cv:
                # wait until every thread is parked at its gate
                while len(self.by_ident) < self.n:
                    self.cv.wait(0.05)
                _mon.set_events(TOOL, _mon.events.LINE)
                self.current = self._choose(None, 'start')
                self.cv.notify_all()
                ok = self.cv.wait_for(lambda: not self.alive, timeout=120)
            if not ok:
                self.aborted = self.aborted or 'wall-clock watchdog'
                with self.cv:
                    self.cv.notify_all()
            for t in threads:
                t.join(5)
        finally:
            _mon.set_events(TOOL, 0)
            for code in self._instr_codes:
                try:
                    _mon.set_local_events(TOOL, code, 0)
                except Exception:
                    pass
            _mon.register_callback(TOOL, _mon.events.LINE, None)
            _mon.register_callback(TOOL, _mon.events.PY_RETURN, None)
            if self.opcodes:
                _mon.register_callback(TOOL, _mon.events.INSTRUCTION, None)
            _mon.free_tool_id(TOOL)
            CURRENT = None
        return self

    def _wrap(self, idx, body):
        with self.cv:
            self.by_ident[_get_ident()] = idx
            self.cv.notify_all()
            while self.current != idx and not self.aborted:
                self.cv.wait()
        try:
            if not self.aborted:
                body()
        except SimAbort:
            pass
        except BaseException as e:
            self.errors[idx] = e
        finally:
            with self.cv:
                self.alive.discard(idx)
                self.blocked.pop(idx, None)
                if not self.aborted and self.alive:
                    nxt = self._choose(idx, 'exit')
                    if nxt is None:
                        self._abort('deadlock: all remaining threads are '
                                    'blocked on locks')
                    else:
                        self.current = nxt
                self.cv.notify_all()

    # -- decisions ---------------------------------------------------------------
    def _runnable(self, exclude=None):
        out = []
        for i in sorted(self.alive):
            if i == exclude:
                continue
            lk = self.blocked.get(i)
            if lk is not None and lk.owner is not None and lk.owner != i:
                continue
            out.append(i)
        return out

    def _choose(self, me, kind):
        """Forced decision (start, block, exit): who gets the baton."""
        cand = self._runnable(exclude=me)
        if not cand:
            return None
        if self.replay is not None:
            nxt = None
            while self.forced:
                f = self.forced.pop(0)
                if f in cand:
                    nxt = f
                    break
            if nxt is None:
                nxt = cand[0]
        else:
            nxt = self.rng.choice(cand) if self.rng is not None else cand[0]
        self.forced_log.append(nxt)
        return nxt

    def _abort(self, reason):
        if not self.aborted:
            self.aborted = reason
        self.cv.notify_all()

    def deadlock(self, why):
        with self.cv:
            self._abort('deadlock: ' + why)
        raise SimAbort()

    def block(self, me, lock):
        """Called by SimLock.acquire when the lock is held by someone else."""
        with self.cv:
            self.blocked[me] = lock
            nxt = self._choose(me, 'block')
            if nxt is None:
                self._abort('deadlock: thread %d waits for %s held by %r and '
                            'nobody else can run' % (me, lock.name, lock.owner))
                raise SimAbort()
            self.current = nxt
            self.cv.notify_all()
            while self.current != me and not self.aborted:
                self.cv.wait()
            self.blocked.pop(me, None)
            if self.aborted:
                raise SimAbort()

    def _handoff(self, me, nxt):
        with self.cv:
            self.current = nxt
            self.cv.notify_all()
            while self.current != me and not self.aborted:
                self.cv.wait()
            if self.aborted:
                raise SimAbort()

    def _in_region(self, code):
        r = self._region_cache.get(code)
        if r is None:
            fn = code.co_filename
            rel = os.path.realpath(fn)[len(SPYNE_ROOT):]
            r = (rel, code.co_name) in self.region
            if not r:
                # lambdas, comprehensions and inner functions defined inside a
                # region function belong to the region (a key function called
                # by list.sort() is a pre-emption point INSIDE that one line)
                qn = getattr(code, 'co_qualname', '') or ''
                parts = qn.split('.')
                if len(parts) > 1 and '<locals>' in parts:
                    for fn_rel, fn_name in self.region:
                        if fn_rel == rel and fn_name in parts[:-1]:
                            r = True
                            break
            self._region_cache[code] = r
            if r:
                # returning from a region function is noticed, so that the
                # line the caller continues with becomes a pre-emption point;
                # bytecode granularity inside the region when asked for
                ev = _mon.events.PY_RETURN    # (PY_UNWIND cannot be local)
                if self.opcodes:
                    ev |= _mon.events.INSTRUCTION
                _mon.set_local_events(TOOL, code, ev)
                self._instr_codes.append(code)
        return r

    def _on_leave(self, code, offset, value):
        me = self.by_ident.get(_get_ident())
        if me is not None:
            self._was_in_region[me] = True
        return None

    def seam_point(self, site):
        """A pre-emption point inside a stand-in for non-Python code (a C
        library that releases the GIL): counted and replayed like a line."""
        me = self.by_ident.get(_get_ident())
        if me is None or me != self.current:
            return
        if self.aborted:
            raise SimAbort()
        self.step += 1
        self.local[me] += 1
        self.seam_steps += 1
        nxt = None
        if self.replay is not None:
            to = self.replay.get((me, self.local[me]))
            if to is not None:
                cand = self._runnable(exclude=me)
                if cand:
                    nxt = to if to in cand else cand[0]
        elif self.rng is not None and (self.p > 0 or self.pct) and \
                                              self.rng.random() < self.p_seam:
            cand = self._runnable(exclude=me)
            if cand:
                nxt = self.rng.choice(cand)
        if nxt is not None:
            self.decisions.append([me, self.local[me], nxt, site])
            self.region_hits[site] = self.region_hits.get(site, 0) + 1
            self._handoff(me, nxt)

    def _on_instr(self, code, offset):
        me = self.by_ident.get(_get_ident())
        if me is None or me != self.current:
            return None
        if self.aborted:
            raise SimAbort()
        self.step += 1
        self.local[me] += 1
        self.instr_steps += 1
        if self.step > self.step_cap:
            with self.cv:
                self._abort('step cap exceeded')
            raise SimAbort()
        nxt = None
        if self.replay is not None:
            to = self.replay.get((me, self.local[me]))
            if to is not None:
                cand = self._runnable(exclude=me)
                if cand:
                    nxt = to if to in cand else cand[0]
        elif self.rng.random() < self.p_instr:
            cand = self._runnable(exclude=me)
            if cand:
                nxt = self.rng.choice(cand)
        if nxt is not None:
            rel = os.path.realpath(code.co_filename)[len(SPYNE_ROOT):]
            site = '%s:%s' % (rel, code.co_name)
            self.decisions.append([me, self.local[me], nxt, site])
            self.region_hits[site] = self.region_hits.get(site, 0) + 1
            self._handoff(me, nxt)
        return None

    def _on_line(self, code, line):
        fn = code.co_filename
        if not fn.startswith(SPYNE_ROOT):
            if not os.path.realpath(fn).startswith(SPYNE_ROOT):
                return _mon.DISABLE
        me = self.by_ident.get(_get_ident())
        if me is None or me != self.current:
            return None
        if self.aborted:
            raise SimAbort()
        self.step += 1
        self.local[me] += 1
        self.seen.add(code)
        self.thread_codes[me].add(code)
        if self.step > self.step_cap:
            with self.cv:
                self._abort('step cap exceeded')
            raise SimAbort()
        nxt = None
        if self.replay is not None:
            if self.opcodes and self.region:
                self._in_region(code)   # enables INSTRUCTION events there
            to = self.replay.get((me, self.local[me]))
            if to is not None:
                cand = self._runnable(exclude=me)
                if cand:
                    nxt = to if to in cand else cand[0]
        else:
            sw = False
            if self.pct and self.step >= self.pct[0]:
                self.pct.pop(0)
                sw = True
            elif self.region:
                inr = self._in_region(code)
                # the line the caller continues with after a region function
                # has returned is a pre-emption point too: otherwise nothing
                # could run right after the region's last store
                was = self._was_in_region[me]
                self._was_in_region[me] = False
                if inr or was:
                    self.in_region_steps += 1
                    if self.rng.random() < self.p:
                        sw = True
            if sw:
                cand = self._runnable(exclude=me)
                if cand:
                    nxt = self.rng.choice(cand)
        if nxt is not None:
            rel = os.path.realpath(fn)[len(SPYNE_ROOT):]
            site = '%s:%s' % (rel, code.co_name)
            self.decisions.append([me, self.local[me], nxt, site])
            self.region_hits[site] = self.region_hits.get(site, 0) + 1
            self._handoff(me, nxt)
        return None
