"""Determinism self-test: the same cases, run twice in this process and once in
a fresh interpreter under another PYTHONHASHSEED, must give byte-identical event
log digests and verdicts."""

import importlib
import json
import os
import subprocess
import sys

from .runner import VERIF

PROPS = ['c13', 'c14', 'c09', 'c10', 'c12', 'c15', 'c07']


def _digests(mod, n, seed, reverse=False):
    cases = []
    for i, case in enumerate(mod.selftest_cases(n, seed)
                             if hasattr(mod, 'selftest_cases')
                             else mod.gen_cases('quick', seed)):
        if i >= n:
            break
        cases.append(case)
    order = list(range(len(cases)))
    if reverse:
        order.reverse()
    out = [None] * len(cases)
    for i in order:
        r = mod.run_case(cases[i])
        out[i] = [r['digest'], sorted(v['sig'] for v in r['violations'])]
    return out


def child(prop, n, seed):
    # the fresh interpreter runs the cases in REVERSE order: a verdict or an
    # event log must not depend on what the process executed before
    mod = importlib.import_module('props.%s' % prop)
    json.dump(_digests(mod, n, seed, reverse=True), sys.stdout)


def main(n):
    import_errors = 0
    bad = 0
    seed = int(os.environ.get('VERIF_SEED', '0') or 0)
    for prop in PROPS:
        try:
            mod = importlib.import_module('props.%s' % prop)
        except ImportError as e:
            if 'props.' in str(e):
                continue        # check not built (yet)
            raise
        if getattr(mod, 'SELFTEST_SKIP', False):
            continue
        a = _digests(mod, n, seed)
        b = _digests(mod, n, seed)
        env = dict(os.environ)
        env['PYTHONHASHSEED'] = '4242'
        env['VERIF_KEEP_HASHSEED'] = '1'
        p = subprocess.run([sys.executable, '-c',
            'import sys; sys.path.insert(0, %r); from sim import selftest; '
            'selftest.child(%r, %d, %d)' % (VERIF, prop, n, seed)],
            stdout=subprocess.PIPE, stderr=subprocess.PIPE, env=env,
            timeout=1200)
        try:
            c = json.loads(p.stdout.decode())
        except Exception:
            print('selftest %s: child failed: %s' % (prop,
                                           p.stderr.decode()[-800:]))
            bad += 1
            continue
        same = a == b == c
        print('selftest %s: %d cases, same-process repeat %s, fresh '
              'interpreter (PYTHONHASHSEED=4242, reverse order) %s' % (prop,
              len(a),
              'identical' if a == b else 'DIFFERS',
              'identical' if a == c else 'DIFFERS'))
        if not same:
            bad += 1
            for i, (x, y, z) in enumerate(zip(a, b, c)):
                if not (x == y == z):
                    print('   first divergence at case %d: %r %r %r' % (
                                                              i, x, y, z))
                    break
    return 2 if bad else 0
