"""Determinism self-test: the same cases, run twice in this process and once in
a fresh interpreter under another PYTHONHASHSEED, must give byte-identical event
log digests and verdicts."""

import importlib
import json
import os
import subprocess
import sys

from .runner import VERIF

PROPS = ['c13', 'c14', 'c09', 'c10', 'c12', 'c15', 'c07']


def _digests(mod, n, seed, reverse=False):
    cases = []
    for i, case in enumerate(mod.selftest_cases(n, seed)
                             if hasattr(mod, 'selftest_cases')
                             else mod.gen_cases('quick', seed)):
        if i >= n:
            break
        cases.append(case)
    order = list(range(len(cases)))
    if reverse:
        order.reverse()
    out = [None] * len(cases)
    for i in order:
        r = mod.run_case(cases[i])
        out[i] = [r['digest'], sorted(v['sig'] for v in r['violations'])]
    return out


def child(prop, n, seed):
    # the fresh interpreter runs the cases in REVERSE order: a verdict or an
    # event log must not depend on what the process executed before
    mod = importlib.import_module('props.%s' % prop)
    json.dump(_digests(mod, n, seed, reverse=True), sys.stdout)


def sched_unit_tests():
    """The scheduler's own semantics: mutual exclusion of SimLock, detection of
    a lock-order deadlock, and exact replay of a recorded schedule."""
    import random
    from . import sched
    import spyne.util.memo as target     # any spyne module: its lines are steps
    bad = 0

    # a function whose code lives in a spyne file, so that its lines are
    # pre-emption points: memoize.get_key is called in a loop
    m = target.memoize(lambda *a: a)

    def spin(k):
        for _ in range(k):
            m.get_key((1,), {})

    # 1. mutual exclusion + lost update without the lock
    for use_lock in (True, False):
        lost = 0
        for seed in range(40):
            lock = sched.SimLock(False, 'L')
            box = {'n': 0}

            def body():
                for _ in range(3):
                    if use_lock:
                        lock.acquire()
                    v = box['n']
                    spin(2)
                    box['n'] = v + 1
                    if use_lock:
                        lock.release()
            s = sched.Scheduler(3, {'rng': random.Random(seed),
                                    'pct': [3, 9, 17, 30], 'p': 0.0})
            s.run([body, body, body])
            if s.aborted or box['n'] != 9:
                lost += 1
        if use_lock and lost:
            print('sched selftest: SimLock failed to exclude (%d/40)' % lost)
            bad += 1
        if not use_lock and not lost:
            print('sched selftest: no lost update found without a lock')
            bad += 1

    # 2. lock-order inversion is reported as a deadlock for some schedule
    dead = 0
    for seed in range(60):
        a, b = sched.SimLock(False, 'A'), sched.SimLock(False, 'B')

        def t1():
            a.acquire(); spin(3); b.acquire(); b.release(); a.release()

        def t2():
            b.acquire(); spin(3); a.acquire(); a.release(); b.release()
        s = sched.Scheduler(2, {'rng': random.Random(seed),
                                'pct': [1 + seed % 3], 'p': 0.0})
        s.run([t1, t2])
        if s.aborted and s.aborted.startswith('deadlock'):
            dead += 1
    if not dead:
        print('sched selftest: lock-order inversion never reported')
        bad += 1

    # 3. a recorded schedule replays to the same decisions
    out = []

    def mk(i):
        def body():
            for k in range(4):
                spin(2)
                out.append(i)
        return body
    s1 = sched.Scheduler(3, {'rng': random.Random(7), 'pct': [5, 11, 23, 31],
                             'p': 0.0})
    s1.run([mk(0), mk(1), mk(2)])
    first = list(out)
    del out[:]
    s2 = sched.Scheduler(3, {'replay': [d[:3] for d in s1.decisions],
                             'forced': list(s1.forced_log)})
    s2.run([mk(0), mk(1), mk(2)])
    if first != out or s1.step != s2.step:
        print('sched selftest: replay diverged: %r vs %r' % (first, out))
        bad += 1
    print('selftest scheduler: mutual exclusion ok, lost update found without '
          'lock, deadlock reported in %d/60 schedules, replay %s' % (dead,
          'identical' if first == out else 'DIVERGED'))
    return bad


def main(n):
    import_errors = 0
    bad = 0
    bad += sched_unit_tests()
    seed = int(os.environ.get('VERIF_SEED', '0') or 0)
    for prop in PROPS:
        try:
            mod = importlib.import_module('props.%s' % prop)
        except ImportError as e:
            if 'props.' in str(e):
                continue        # check not built (yet)
            raise
        if getattr(mod, 'SELFTEST_SKIP', False):
            continue
        a = _digests(mod, n, seed)
        b = _digests(mod, n, seed)
        env = dict(os.environ)
        env['PYTHONHASHSEED'] = '4242'
        env['VERIF_KEEP_HASHSEED'] = '1'
        p = subprocess.run([sys.executable, '-c',
            'import sys; sys.path.insert(0, %r); from sim import selftest; '
            'selftest.child(%r, %d, %d)' % (VERIF, prop, n, seed)],
            stdout=subprocess.PIPE, stderr=subprocess.PIPE, env=env,
            timeout=1200)
        try:
            c = json.loads(p.stdout.decode())
        except Exception:
            print('selftest %s: child failed: %s' % (prop,
                                           p.stderr.decode()[-800:]))
            bad += 1
            continue
        same = a == b == c
        print('selftest %s: %d cases, same-process repeat %s, fresh '
              'interpreter (PYTHONHASHSEED=4242, reverse order) %s' % (prop,
              len(a),
              'identical' if a == b else 'DIFFERS',
              'identical' if a == c else 'DIFFERS'))
        if not same:
            bad += 1
            for i, (x, y, z) in enumerate(zip(a, b, c)):
                if not (x == y == z):
                    print('   first divergence at case %d: %r %r %r' % (
                                                              i, x, y, z))
                    break
    return 2 if bad else 0
