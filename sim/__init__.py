"""Deterministic simulation harness for arskom/spyne (see /verif/DESIGN.md)."""

import os
import sys
import logging

REPO = os.environ.get('VERIF_REPO', '/repo')


def bootstrap():
    """Make `import spyne` resolve to /repo's working tree and silence logging
    (no simulated thread may ever be parked while holding a logging lock)."""
    import warnings
    warnings.simplefilter('ignore')
    logging.disable(logging.CRITICAL)
    if not sys.path or sys.path[0] != REPO:
        sys.path.insert(0, REPO)
    import spyne  # noqa
    assert os.path.realpath(os.path.dirname(spyne.__file__)) == \
        os.path.realpath(os.path.join(REPO, 'spyne')), spyne.__file__
    return spyne
