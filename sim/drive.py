"""Drivers that play the transport around a spyne Application.

`serverbase_call` is what every non-WSGI transport of spyne does (compare
spyne.auxproc._base.AuxProcBase.process and spyne.server.msgpack): it calls the
four ServerBase pipeline stages in order, drains the output and closes the
context exactly once."""

from . import bootstrap
bootstrap()

from spyne.server import ServerBase
from spyne import MethodContext


class SBOutcome(object):
    def __init__(self):
        self.exc = None
        self.exc_stage = None
        self.body = None
        self.is_fault = None
        self.ctx = None
        self.headers = None
        self.status = None


def serverbase_call(server, body, charset=None, on_ctx=None):
    """Returns SBOutcome.  Exceptions escaping a pipeline stage are recorded
    (never propagated); the context is closed in any case, like a transport's
    finally-clause would."""
    o = SBOutcome()
    stage = 'context'
    p_ctx = None
    try:
        ctx = MethodContext(server, MethodContext.SERVER)
        p_ctx = ctx
        ctx.in_string = [body]
        stage = 'generate_contexts'
        contexts = server.generate_contexts(ctx, charset)
        p_ctx = contexts[0]
        if on_ctx is not None:
            on_ctx(p_ctx)
        if p_ctx.in_error is None:
            stage = 'get_in_object'
            server.get_in_object(p_ctx)
        if p_ctx.in_error is None:
            stage = 'get_out_object'
            server.get_out_object(p_ctx)
        stage = 'get_out_string'
        server.get_out_string(p_ctx)
        stage = 'drain'
        o.body = b''.join(p_ctx.out_string)
        o.is_fault = p_ctx.out_error is not None
    except Exception as e:
        o.exc = e
        o.exc_stage = stage
    finally:
        o.ctx = p_ctx
        if p_ctx is not None:
            try:
                p_ctx.close()
            except Exception as e:
                if o.exc is None:
                    o.exc, o.exc_stage = e, 'close'
    return o


def make_server(app):
    return ServerBase(app)
