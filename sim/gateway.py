"""The only 'network' the application sees: a WSGI gateway stub that builds the
environ, serves wsgi.input under a seeded read plan, records start_response, pulls
the response iterable under a consumer plan and calls close()."""

import errno


class Stamp(object):
    """Global event sequence number (the simulator's logical clock for
    single-threaded runs; the thread scheduler supplies its own)."""

    def __init__(self):
        self.n = 0

    def __call__(self):
        self.n += 1
        return self.n


class SimStream(object):
    """wsgi.input.  `data` is what the peer really sent (may be shorter or longer
    than the declared Content-Length).  `plan` is a list of directives consumed
    one per read() call: ('full',) ('short', k) ('eof',) ('none',) ('error',).
    After the plan is exhausted reads are served in full."""

    def __init__(self, data, plan, events, stamp, fired):
        self.data = data
        self.pos = 0
        self.plan = list(plan)
        self.events = events
        self.stamp = stamp
        self.fired = fired
        self.total_returned = 0
        self.unbounded_reads = 0

    def _count(self, kind):
        self.fired[kind] = self.fired.get(kind, 0) + 1

    def read(self, n=-1):
        if n is None or n < 0:
            self.unbounded_reads += 1
            self._count('unbounded_read')
            n = len(self.data) - self.pos
        d = self.plan.pop(0) if self.plan else ('full',)
        avail = len(self.data) - self.pos
        if d[0] == 'error':
            self._count('read_error')
            self.events.append((self.stamp(), 'read_error', n))
            raise OSError(errno.ECONNRESET, 'simulated connection reset')
        if d[0] == 'none':
            self._count('none_read')
            self.events.append((self.stamp(), 'read', n, None))
            return None
        if d[0] == 'eof':
            self._count('eof_early')
            self.events.append((self.stamp(), 'read', n, 0))
            return b''
        k = min(n, avail)
        if d[0] == 'short' and k > 1:
            k = max(1, min(k - 1, d[1]))
            self._count('short_read')
        chunk = self.data[self.pos:self.pos + k]
        self.pos += k
        self.total_returned += len(chunk)
        if k < n and avail <= k and d[0] != 'short':
            self._count('stream_exhausted')
        self.events.append((self.stamp(), 'read', n, len(chunk)))
        return chunk

    # PEP 3333 completeness; spyne does not use these
    def readline(self, *a):
        return self.read(*a)

    def readlines(self, *a):
        return [self.read()]

    def __iter__(self):
        return iter(self.readlines())


class Outcome(object):
    def __init__(self):
        self.events = []        # (stamp, kind, ...)
        self.start_calls = []   # (status, headers, has_exc_info)
        self.chunks = []
        self.exc = None         # exception escaping callable / iteration / close
        self.exc_where = None
        self.returned = False
        self.closed = False
        self.exhausted = False
        self.bytes_read = 0
        self.unbounded_reads = 0
        self.fired = {}

    @property
    def status(self):
        return self.start_calls[-1][0] if self.start_calls else None

    @property
    def headers(self):
        return self.start_calls[-1][1] if self.start_calls else None

    @property
    def body(self):
        try:
            return b''.join(self.chunks)
        except TypeError:
            return None

    def header(self, name):
        hs = [v for k, v in (self.headers or []) if isinstance(k, str) and
                                                  k.lower() == name.lower()]
        return hs[0] if hs else None


def make_environ(req, stream, content_length='equal', extra=None):
    """content_length: 'equal' | 'absent' | 'empty' | int (explicit value)."""
    env = {
        'REQUEST_METHOD': req.verb,
        'SCRIPT_NAME': '',
        'PATH_INFO': req.path,
        'QUERY_STRING': req.qs,
        'SERVER_NAME': 'sim.invalid',
        'SERVER_PORT': '80',
        'SERVER_PROTOCOL': 'HTTP/1.1',
        'wsgi.version': (1, 0),
        'wsgi.url_scheme': 'http',
        'wsgi.input': stream,
        'wsgi.errors': _Errors(),
        'wsgi.multithread': True,
        'wsgi.multiprocess': False,
        'wsgi.run_once': False,
    }
    if req.ctype is not None:
        env['CONTENT_TYPE'] = req.ctype
    if content_length == 'equal':
        env['CONTENT_LENGTH'] = str(len(req.body))
    elif content_length == 'absent':
        pass
    elif content_length == 'empty':
        env['CONTENT_LENGTH'] = ''
    elif content_length == 'garbage':
        env['CONTENT_LENGTH'] = 'abc'
    else:
        env['CONTENT_LENGTH'] = str(int(content_length))
    if getattr(req, 'env', None):
        for k, v in req.env.items():
            if v is None:
                env.pop(k, None)        # variable omitted by the gateway
            else:
                env[k] = v
    if extra:
        env.update(extra)
    return env


class _Errors(object):
    def write(self, s):
        pass

    def writelines(self, s):
        pass

    def flush(self):
        pass


def call_wsgi(app, req, read_plan=(), content_length='equal',
              consumer=('drain',), trailing=b'', stamp=None, events=None,
              extra_env=None):
    """Drive one request through the WSGI callable `app`.

    consumer: ('drain',) | ('abort', k) | ('close_only',) | ('drain_no_close',)
    Returns an Outcome; never raises for exceptions coming out of the
    application (they are recorded)."""
    out = Outcome()
    if events is not None:
        out.events = events
    stamp = stamp or Stamp()
    ev = out.events
    stream = SimStream(req.body + trailing, read_plan, ev, stamp, out.fired)
    env = make_environ(req, stream, content_length, extra_env)

    def start_response(status, headers, exc_info=None):
        ev.append((stamp(), 'start_response', status, exc_info is not None))
        out.start_calls.append((status, headers, exc_info is not None))
        return lambda data: None

    ev.append((stamp(), 'call'))
    result = None
    try:
        result = app(env, start_response)
        out.returned = True
        ev.append((stamp(), 'return'))
    except Exception as e:
        out.exc, out.exc_where = e, 'call'
        ev.append((stamp(), 'raise', 'call', type(e).__name__))
    if out.returned:
        try:
            if consumer[0] in ('drain', 'drain_no_close'):
                for chunk in result:
                    ev.append((stamp(), 'chunk', len(chunk)
                                       if hasattr(chunk, '__len__') else -1))
                    out.chunks.append(chunk)
                out.exhausted = True
                ev.append((stamp(), 'exhausted'))
            elif consumer[0] == 'abort':
                it = iter(result)
                for _ in range(consumer[1]):
                    try:
                        chunk = next(it)
                    except StopIteration:
                        out.exhausted = True
                        ev.append((stamp(), 'exhausted'))
                        break
                    ev.append((stamp(), 'chunk', len(chunk)
                                       if hasattr(chunk, '__len__') else -1))
                    out.chunks.append(chunk)
                else:
                    out.fired['consumer_abort'] = 1
            elif consumer[0] == 'close_only':
                out.fired['consumer_close_only'] = 1
        except Exception as e:
            out.exc, out.exc_where = e, 'iterate'
            ev.append((stamp(), 'raise', 'iterate', type(e).__name__))
        if consumer[0] != 'drain_no_close':
            try:
                ev.append((stamp(), 'close'))
                close = getattr(result, 'close', None)
                if close is not None:
                    close()
                out.closed = True
                ev.append((stamp(), 'close_done'))
            except Exception as e:
                if out.exc is None:
                    out.exc, out.exc_where = e, 'close'
                ev.append((stamp(), 'raise', 'close', type(e).__name__))
    out.bytes_read = stream.total_returned
    out.unbounded_reads = stream.unbounded_reads
    return out
