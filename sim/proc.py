"""Child interpreters with a controlled environment: explicit PYTHONHASHSEED and
address-space randomisation switched off (personality ADDR_NO_RANDOMIZE), so that
object addresses -- hence the iteration order of sets of classes -- are a pure
function of (code, hash seed, heap padding).  That makes heap-layout dependent
behaviour replayable."""

import os
import subprocess
import sys

_BOOT = (
    'import ctypes, os, sys\n'
    'if os.environ.get("VERIF_NOASLR") == "1":\n'
    '    try:\n'
    '        libc = ctypes.CDLL(None)\n'
    '        cur = libc.personality(0xffffffff)\n'
    '        if cur != -1 and not (cur & 0x0040000):\n'
    '            libc.personality(cur | 0x0040000)\n'
    '            os.execv(sys.executable, [sys.executable] + sys.argv)\n'
    '    except Exception:\n'
    '        pass\n'
)


def run_child(code, hashseed, timeout=900, noaslr=True):
    """Run `code` (python source) in a fresh interpreter.  Returns the
    CompletedProcess.  The code is passed through a file descriptor-free
    channel: written to argv via -c after the bootstrap that re-executes the
    interpreter with ASLR disabled."""
    env = dict(os.environ)
    env['PYTHONHASHSEED'] = str(hashseed)
    env['VERIF_NOASLR'] = '1' if noaslr else '0'
    # the bootstrap re-execs `python script`, so the code goes through a
    # temporary script file under /var/tmp (removed afterwards)
    import tempfile
    fd, path = tempfile.mkstemp(suffix='.py', prefix='verif-child-',
                                dir='/var/tmp')
    try:
        with os.fdopen(fd, 'w') as f:
            f.write(_BOOT)
            f.write(code)
        return subprocess.run([sys.executable, path], stdout=subprocess.PIPE,
                              stderr=subprocess.PIPE, env=env,
                              timeout=timeout)
    finally:
        try:
            os.unlink(path)
        except OSError:
            pass
