"""Canonical forms of responses and per-protocol fault decoders."""

import json
import re

import msgpack
import yaml
from lxml import etree

NS_SOAP11 = 'http://schemas.xmlsoap.org/soap/envelope/'
NS_SOAP12 = 'http://www.w3.org/2003/05/soap-envelope'
XSI = 'http://www.w3.org/2001/XMLSchema-instance'
XSI_TYPE = '{%s}type' % XSI

_ADDR = re.compile(r'0x[0-9a-fA-F]+')


def mask(s):
    if isinstance(s, bytes):
        s = s.decode('utf8', 'replace')
    return _ADDR.sub('0xADDR', s)


class Undecodable(Exception):
    pass


def _parse_xml(body):
    try:
        return etree.fromstring(body, parser=etree.XMLParser(
                             resolve_entities=False, remove_comments=True))
    except Exception as e:
        raise Undecodable('xml: %s' % (e,))


def _resolve_qname(el, value):
    """QName-valued attribute -> Clark name, or an explicit UNBOUND marker."""
    if ':' in value:
        pfx, local = value.split(':', 1)
    else:
        pfx, local = None, value
    ns = el.nsmap.get(pfx)
    if ns is None:
        if pfx is None:
            return local
        return 'UNBOUND:%s:%s' % (pfx, local)
    return '{%s}%s' % (ns, local)


def canon_xml_el(el):
    attrs = []
    for k, v in sorted(el.attrib.items()):
        if k == XSI_TYPE:
            v = _resolve_qname(el, v)
        attrs.append((k, mask(v)))
    text = mask(el.text) if el.text and el.text.strip() else ''
    kids = [canon_xml_el(c) for c in el if isinstance(c.tag, str)]
    tails = [mask(c.tail) for c in el if c.tail and c.tail.strip()]
    return (el.tag, tuple(attrs), text, tuple(kids), tuple(tails))


def canon_body(kind, body):
    """kind: 'xml' | 'json' | 'yaml' | 'msgpack' | 'bytes'."""
    if body is None:
        return ('NOT-BYTES',)
    try:
        if kind == 'xml':
            if not body:
                return ('empty',)
            el = _parse_xml(body)
            # faultcode text is a QName: resolve its prefix
            for fc in el.iter('faultcode'):
                if fc.text:
                    fc.text = _resolve_qname(fc, fc.text)
            for tag in ('{%s}Value' % NS_SOAP12,):
                for fc in el.iter(tag):
                    if fc.text:
                        fc.text = _resolve_qname(fc, fc.text)
            return ('xml', canon_xml_el(el))
        if kind == 'json':
            if not body:
                return ('empty',)
            return ('json', _mask_obj(json.loads(body.decode('utf8'))))
        if kind == 'yaml':
            if not body:
                return ('empty',)
            return ('yaml', _mask_obj(yaml.safe_load(body.decode('utf8'))))
        if kind == 'msgpack':
            if not body:
                return ('empty',)
            return ('msgpack', _mask_obj(_unpack_all(body)))
    except Undecodable as e:
        return ('UNDECODABLE', kind, mask(body))
    except Exception as e:
        return ('UNDECODABLE', kind, mask(body))
    return ('bytes', mask(body))


def _unpack_all(body):
    u = msgpack.Unpacker(raw=False, strict_map_key=False)
    u.feed(body)
    return [o for o in u]


def _mask_obj(o):
    if isinstance(o, str):
        return mask(o)
    if isinstance(o, bytes):
        return ('b', mask(o))
    if isinstance(o, dict):
        # member order is part of the response: keep it
        return tuple((_mask_obj(k), _mask_obj(v)) for k, v in o.items())
    if isinstance(o, (list, tuple)):
        return tuple(_mask_obj(x) for x in o)
    if isinstance(o, float) and o == int(o):
        return int(o)
    return o


BODY_KIND = {
    'xml': 'xml', 'soap11': 'xml', 'soap12': 'xml',
    'json': 'json', 'yaml': 'yaml',
    'msgpack': 'msgpack', 'msgpackrpc': 'msgpack',
    'httprpc': 'bytes',
}


def canon_response(out_prot, outcome, is_wsdl=False):
    """Canonical (status, headers-without-length, body) of a gateway Outcome."""
    hdrs = tuple(sorted((k, mask(v)) for k, v in (outcome.headers or [])
                                         if k.lower() != 'content-length'))
    exc = None
    if outcome.exc is not None:
        exc = (outcome.exc_where, type(outcome.exc).__name__,
                                                      mask(str(outcome.exc)))
    kind = 'bytes' if is_wsdl else BODY_KIND[out_prot]
    body = outcome.body
    return (outcome.status, hdrs, canon_body(kind, body), exc)


# ---------------------------------------------------------------------------
# fault decoders: body bytes -> (code, string, detail) or None when the body is
# not a fault document of that protocol.  Raise Undecodable when malformed.


def _strip_prefix(code, el):
    if code is None:
        return None
    if ':' in code:
        pfx, rest = code.split(':', 1)
        ns = el.nsmap.get(pfx)
        if ns in (NS_SOAP11, NS_SOAP12):
            return rest
        # XmlDocument writes the QName with spyne's fixed envelope prefix but
        # then renames the declaration (ns0): the prefix is left unbound.  A
        # tolerant client still recognises it; we do the same (DESIGN 3.7).
        if ns is None and pfx in ('soap11env', 'soap12env'):
            return rest
    return code


def _detail_el(el):
    """Element -> nested dict / text (generic detail decoder)."""
    if el is None:
        return None
    kids = [c for c in el if isinstance(c.tag, str)]
    if not kids:
        return el.text
    d = {}
    for c in kids:
        d[etree.QName(c).localname] = _detail_el(c)
    return d


def decode_fault_xml11(el):
    """`el` is the Fault element (XmlDocument / Soap 1.1 form)."""
    fc = el.find('faultcode')
    fs = el.find('faultstring')
    if fc is None or fs is None:
        raise Undecodable('fault without faultcode/faultstring')
    det = el.find('detail')
    return (_strip_prefix(fc.text, fc), fs.text or '',
                               _detail_el(det) if det is not None else None)


def decode_fault_soap12(el):
    q = lambda n: '{%s}%s' % (NS_SOAP12, n)
    code = el.find(q('Code'))
    reason = el.find(q('Reason'))
    if code is None or reason is None:
        raise Undecodable('soap12 fault without Code/Reason')
    parts = []
    cur = code
    first = True
    while cur is not None:
        v = cur.find(q('Value'))
        if v is None:
            raise Undecodable('soap12 Code without Value')
        t = _strip_prefix(v.text, v)
        if first:
            t = {'Sender': 'Client', 'Receiver': 'Server'}.get(t, t)
            first = False
        parts.append(t)
        cur = cur.find(q('Subcode'))
    text = reason.find(q('Text'))
    if text is None:
        raise Undecodable('soap12 Reason without Text')
    det = el.find(q('Detail'))
    return ('.'.join(parts), text.text or '',
                               _detail_el(det) if det is not None else None)


def decode_fault(out_prot, body):
    """-> ('fault', (code, string, detail)) | ('normal', None); raises
    Undecodable if body is not a well-formed document of the protocol."""
    if body is None:
        raise Undecodable('body is not bytes')
    if out_prot == 'xml':
        if not body:
            return ('normal', None)
        el = _parse_xml(body)
        if el.tag == '{%s}Fault' % NS_SOAP11:
            return ('fault', decode_fault_xml11(el))
        return ('normal', None)
    if out_prot in ('soap11', 'soap12'):
        ens = NS_SOAP11 if out_prot == 'soap11' else NS_SOAP12
        if not body:
            raise Undecodable('empty soap response')
        el = _parse_xml(body)
        if el.tag != '{%s}Envelope' % ens:
            raise Undecodable('not a %s envelope: %s' % (out_prot, el.tag))
        b = el.find('{%s}Body' % ens)
        if b is None:
            raise Undecodable('envelope without Body')
        f = b.find('{%s}Fault' % ens)
        if f is None:
            return ('normal', None)
        if out_prot == 'soap11':
            return ('fault', decode_fault_xml11(f))
        return ('fault', decode_fault_soap12(f))
    if out_prot in ('json', 'yaml', 'msgpack'):
        if not body:
            return ('normal', None)
        try:
            if out_prot == 'json':
                doc = json.loads(body.decode('utf8'))
            elif out_prot == 'yaml':
                doc = yaml.safe_load(body.decode('utf8'))
            else:
                docs = _unpack_all(body)
                if len(docs) != 1:
                    raise Undecodable('msgpack: %d documents' % len(docs))
                doc = docs[0]
        except Undecodable:
            raise
        except Exception as e:
            raise Undecodable('%s: %s' % (out_prot, e))
        return _dict_fault(doc)
    if out_prot == 'msgpackrpc':
        if not body:
            return ('normal', None)
        try:
            docs = _unpack_all(body)
        except Exception as e:
            raise Undecodable('msgpack: %s' % (e,))
        if len(docs) != 1 or not isinstance(docs[0], (list, tuple)):
            raise Undecodable('msgpackrpc: not one array')
        msg = docs[0]
        # [1, msgid, error, result]  or spyne's error form [3, code, dict]
        if len(msg) == 4 and msg[0] == 1:
            if msg[2] is not None:
                return _dict_fault(msg[2], force=True)
            return ('normal', None)
        if len(msg) == 3 and msg[0] == 3:
            return _dict_fault(msg[2], force=True)
        raise Undecodable('msgpackrpc: unknown message shape %r' % (msg[:1],))
    if out_prot == 'httprpc':
        return ('unknown', None)
    raise ValueError(out_prot)


def _b2s(x):
    if isinstance(x, bytes):
        return x.decode('utf8', 'replace')
    return x


def _plain(o):
    if isinstance(o, dict):
        return dict((_b2s(k), _plain(v)) for k, v in o.items())
    if isinstance(o, (list, tuple)):
        return [_plain(x) for x in o]
    return _b2s(o)


def _dict_fault(doc, force=False):
    doc = _plain(doc)
    if isinstance(doc, dict) and 'faultcode' in doc and 'faultstring' in doc:
        return ('fault', (doc['faultcode'], doc['faultstring'],
                                                         doc.get('detail')))
    # ignore_wrappers=False form: {"Fault": {...}}
    if isinstance(doc, dict) and len(doc) == 1:
        (k, v), = doc.items()
        if isinstance(v, dict) and 'faultcode' in v and 'faultstring' in v:
            return ('fault', (v['faultcode'], v['faultstring'],
                                                           v.get('detail')))
    if force:
        raise Undecodable('error slot is not a fault dict: %r' % (doc,))
    return ('normal', None)


def decode_httprpc_fault(body):
    """HttpRpc faults are 'code\\n\\nstring' in text/plain."""
    t = body.decode('utf8', 'replace')
    if '\n\n' in t:
        c, s = t.split('\n\n', 1)
        return (c, s, None)
    return None


def is_client_code(code):
    return isinstance(code, str) and (code == 'Client' or
                                                code.startswith('Client.'))


def exc_site(exc):
    """(relative module path, function) of the innermost frame inside the spyne
    tree in exc's traceback -- a line-number-free name for 'where it escaped'."""
    import os
    from . import REPO
    root = os.path.realpath(os.path.join(REPO, 'spyne')) + os.sep
    tb = exc.__traceback__
    site = ('?', '?')
    while tb is not None:
        fn = os.path.realpath(tb.tb_frame.f_code.co_filename)
        if fn.startswith(root) and os.sep + 'test' + os.sep not in fn:
            site = (fn[len(root):], tb.tb_frame.f_code.co_name)
        tb = tb.tb_next
    return '%s:%s' % site
