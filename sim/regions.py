"""Shared-state region catalogue, rebuilt from /repo's current source.

S = functions on the request path that store to / delete / mutate an attribute
    or subscript rooted at self or cls, or assign a declared global (AST scan);
A = anchors by function name for shared state the scan cannot see (it lives
    behind a C object or a parameter);
X = functions actually entered by a simulated thread in a calibration run.
Catalogue = (S & X) | (A & X)   -- names, never line numbers."""

import ast
import os

from . import REPO

SPYNE = os.path.join(REPO, 'spyne')

EXCLUDE_DIRS = ('test', 'twisted', 'store', 'cloth', 'html', 'auxproc',
                'client')
EXCLUDE_FILES = ('django.py', 'pyramid.py', 'zeromq.py', 'sqlalchemy.py',
                 'csv.py', 'null.py', 'gencpp.py', 'autorel.py', 'cherry.py',
                 'web.py', 'email.py', 'test.py', 'wsgi_wrapper.py',
                 'appreg.py', 'resource.py', 'coopmt.py', '_twisted_ws.py')
PER_REQUEST_CLASSES = ('MethodContext', 'TransportContext', 'ProtocolContext',
                       'EventContext', 'PushBase', 'AuxMethodContext',
                       'FakeContext')
MUTATORS = ('add', 'append', 'update', 'clear', 'pop', 'setdefault', 'insert',
            'discard', 'extend', 'remove', 'popitem', 'appendleft')
ANCHORS = {
    ('protocol/xml.py', '__validate_lxml'): 'shared XMLSchema.error_log read '
                                            'after validate()',
    ('util/toposort.py', 'toposort2'): 'mutates the deps table passed in',
    ('context.py', 'close'): 'module global _LAST_GC_RUN',
    ('util/memo.py', '__call__'): 'memoize tables',
    ('util/cdict.py', '__getitem__'): 'cdict fill on lookup',
    ('server/wsgi.py', 'handle_wsdl_request'): 'lazy WSDL, double-checked lock',
}


def _rooted(node, roots=('self', 'cls'), local=None):
    """Is this Attribute/Subscript chain rooted at one of the names in
    `roots` (self / cls / a parameter that may be a shared object), or does it
    go through `.Attributes` (model classes are shared by every thread)?"""
    via_attributes = False
    while isinstance(node, (ast.Attribute, ast.Subscript)):
        if isinstance(node, ast.Attribute) and node.attr == 'Attributes':
            via_attributes = True
        node = node.value
    if via_attributes and isinstance(node, ast.Name):
        return True
    if isinstance(node, ast.Name) and local is not None and \
                                                   node.id not in local:
        return True         # rooted at a global name
    return isinstance(node, ast.Name) and node.id in roots


class _Scan(ast.NodeVisitor):
    def __init__(self, rel):
        self.rel = rel
        self.found = {}
        self.cls_stack = []

    def visit_ClassDef(self, node):
        self.cls_stack.append(node.name)
        self.generic_visit(node)
        self.cls_stack.pop()

    def visit_FunctionDef(self, node):
        if node.name in ('__init__', '__new__'):
            return
        if any(c.endswith(PER_REQUEST_CLASSES) for c in self.cls_stack):
            return
        why = None
        # parameters other than the per-request context may be shared objects
        roots = set(['self', 'cls'])
        for a in node.args.args + node.args.kwonlyargs:
            if 'ctx' not in a.arg and a.arg not in ('inst', 'value', 'element',
                                        'parent', 'doc', 'retval', 'string'):
                roots.add(a.arg)
        # names bound inside the function (anything else a store is rooted at
        # is a global: a module-level object or a class, shared by definition)
        local = set(a.arg for a in node.args.args + node.args.kwonlyargs)
        if node.args.vararg:
            local.add(node.args.vararg.arg)
        if node.args.kwarg:
            local.add(node.args.kwarg.arg)
        for n in ast.walk(node):
            if isinstance(n, ast.Name) and isinstance(n.ctx, ast.Store):
                local.add(n.id)
            elif isinstance(n, (ast.Import, ast.ImportFrom)):
                for al in n.names:
                    local.add((al.asname or al.name).split('.')[0])
        # local aliases of shared structures:  cache = SomeClass._table
        changed = True
        while changed:
            changed = False
            for n in ast.walk(node):
                if isinstance(n, ast.Assign) and len(n.targets) == 1 and \
                        isinstance(n.targets[0], ast.Name) and \
                        isinstance(n.value, (ast.Attribute, ast.Subscript)):
                    base = n.value
                    while isinstance(base, (ast.Attribute, ast.Subscript)):
                        base = base.value
                    if isinstance(base, ast.Name) and (base.id in roots or
                            base.id not in local) and \
                            n.targets[0].id not in roots:
                        roots.add(n.targets[0].id)
                        changed = True
        self._globals_shared = local
        globs = set()
        for n in ast.walk(node):
            if isinstance(n, ast.Global):
                globs.update(n.names)
        for n in ast.walk(node):
            targets = []
            if isinstance(n, ast.Assign):
                targets = n.targets
            elif isinstance(n, (ast.AugAssign, ast.AnnAssign)):
                targets = [n.target]
            elif isinstance(n, ast.Delete):
                targets = n.targets
            for t in targets:
                for tt in ast.walk(t):
                    if isinstance(tt, (ast.Attribute, ast.Subscript)) and \
                                                      _rooted(tt, roots, local):
                        why = why or 'store through self/cls/parameter'
                    if isinstance(tt, ast.Name) and tt.id in globs:
                        why = why or 'global assignment'
            if isinstance(n, ast.Call) and isinstance(n.func, ast.Attribute) \
                    and n.func.attr in MUTATORS and \
                    isinstance(n.func.value, (ast.Attribute, ast.Subscript)) \
                    and _rooted(n.func.value, roots, local):
                why = why or 'mutator call on self/cls/parameter attribute'
        if why:
            self.found[(self.rel, node.name)] = why
        # nested defs
        for child in node.body:
            if isinstance(child, (ast.FunctionDef, ast.ClassDef)):
                self.visit(child)

    visit_AsyncFunctionDef = visit_FunctionDef


def static_scan():
    found = {}
    for root, dirs, files in os.walk(SPYNE):
        rel_root = os.path.relpath(root, SPYNE)
        dirs[:] = [d for d in dirs if d not in EXCLUDE_DIRS and
                                              not d.startswith('__')]
        for f in sorted(files):
            if not f.endswith('.py') or f in EXCLUDE_FILES:
                continue
            path = os.path.join(root, f)
            rel = os.path.normpath(os.path.join(rel_root, f))
            try:
                tree = ast.parse(open(path, encoding='utf8').read())
            except SyntaxError:
                continue
            sc = _Scan(rel)
            sc.visit(tree)
            found.update(sc.found)
    return found


def catalogue(executed):
    """executed: set of (rel, funcname) entered by simulated threads."""
    s = static_scan()
    cat = {}
    for k, why in s.items():
        if k in executed:
            cat[k] = why
    for k, why in ANCHORS.items():
        if k in executed:
            cat[k] = why
    return cat
