"""Parallel runner, evidence writer, known-findings matching, replay files.

A property module provides:
    ID, LEVEL, RULE (text), COMPONENTS (dict real/stub), ASSUMPTIONS (list)
    gen_cases(tier, verif_seed)    -> iterable of JSON-able case dicts
    run_case(case)                 -> result dict:
         {'violations': [{'sig': str, 'what': str, 'detail': ...}],
          'fired': {fault_kind: n}, 'probes': {name: n},
          'signature': str, 'nontrivial': bool, 'steps': int, 'simtime': float,
          'digest': str}
    minimize(case, sig)            -> smaller case that still yields `sig`
                                      (optional; default: identity)
"""

import hashlib
import json
import os
import pickle
import selectors
import signal
import subprocess
import sys
import time
import traceback

VERIF = os.path.dirname(os.path.dirname(os.path.abspath(__file__)))
# (the sensitivity self-test runs the checks against scratch copies of /repo
# with seeded changes applied; its evidence and replays must not overwrite the
# real ones)
EVIDENCE_DIR = os.environ.get('VERIF_EVIDENCE_DIR') or \
                                            os.path.join(VERIF, 'evidence')
REPLAY_DIR = os.environ.get('VERIF_REPLAY_DIR') or \
                                            os.path.join(VERIF, 'replays')
KNOWN_FILE = os.path.join(VERIF, 'known_findings.jsonl')

EXIT_OK, EXIT_VIOLATION, EXIT_HARNESS = 0, 1, 2


class HarnessError(Exception):
    pass


def load_known(prop_id):
    known, fixed = {}, {}
    if os.path.exists(KNOWN_FILE):
        for line in open(KNOWN_FILE):
            line = line.strip()
            if not line or line.startswith('#') or line.startswith('fixed:'):
                continue
            d = json.loads(line)
            if d['property'] != prop_id:
                continue
            (known if d['status'] == 'known' else fixed)[d['signature']] = d
    return known, fixed


def _child(fn, block, wfd):
    code = 0
    try:
        import faulthandler
        faulthandler.enable()
        try:
            res = ('ok', fn(block))
        except BaseException:
            res = ('err', traceback.format_exc())
        data = pickle.dumps(res, protocol=pickle.HIGHEST_PROTOCOL)
        with os.fdopen(wfd, 'wb') as f:
            f.write(data)
    except BaseException:
        code = 3
    finally:
        os._exit(code)


def parallel_blocks(fn, blocks, workers, block_timeout, deadline=None,
                    issued=None):
    """Run fn(block) for each block in forked, short-lived children (at most
    `workers` at a time).  Yields (index, status, payload) in completion order;
    status in 'ok' | 'err' | 'dead' | 'timeout' | 'skipped'."""
    sel = selectors.DefaultSelector()
    # blocks are drawn from the iterator one at a time: building all of them
    # first costs minutes for the thorough tiers (and a parent process with
    # gigabytes of case dicts forks slowly); what is not issued before the
    # deadline is left in the iterator for the caller to count
    it = iter(blocks)
    n_issued = 0
    exhausted = False
    live = {}   # rfd -> [idx, pid, buf, t0]
    results = []
    while not exhausted or live:
        while not exhausted and len(live) < workers:
            if deadline is not None and time.time() > deadline:
                exhausted = True
                break
            try:
                block = next(it)
            except StopIteration:
                exhausted = True
                break
            idx = n_issued
            n_issued += 1
            if issued is not None:
                issued[idx] = block
            rfd, wfd = os.pipe()
            sys.stdout.flush()
            sys.stderr.flush()
            pid = os.fork()
            if pid == 0:
                os.close(rfd)
                for fd in list(live):
                    try:
                        os.close(fd)
                    except OSError:
                        pass
                _child(fn, block, wfd)
            os.close(wfd)
            os.set_blocking(rfd, False)
            live[rfd] = [idx, pid, bytearray(), time.time()]
            sel.register(rfd, selectors.EVENT_READ)
        if not live:
            break
        for key, _ in sel.select(timeout=1.0):
            rfd = key.fd
            ent = live[rfd]
            try:
                data = os.read(rfd, 1 << 20)
            except BlockingIOError:
                continue
            if data:
                ent[2] += data
                continue
            sel.unregister(rfd)
            os.close(rfd)
            del live[rfd]
            _, status = os.waitpid(ent[1], 0)
            try:
                st, payload = pickle.loads(bytes(ent[2]))
                results.append((ent[0], st, payload))
            except Exception:
                results.append((ent[0], 'dead',
                                       'worker exit status %r' % (status,)))
        now = time.time()
        for rfd, ent in list(live.items()):
            if now - ent[3] > block_timeout:
                try:
                    os.kill(ent[1], signal.SIGKILL)
                except OSError:
                    pass
                sel.unregister(rfd)
                os.close(rfd)
                del live[rfd]
                os.waitpid(ent[1], 0)
                results.append((ent[0], 'timeout', None))
        while results:
            yield results.pop(0)


def chunked(it, n):
    block = []
    for x in it:
        block.append(x)
        if len(block) == n:
            yield block
            block = []
    if block:
        yield block


def digest(obj):
    return hashlib.sha256(json.dumps(obj, sort_keys=True,
                                  default=repr).encode()).hexdigest()[:16]


def write_replay(prop_id, case, violation):
    os.makedirs(REPLAY_DIR, exist_ok=True)
    doc = {'property': prop_id, 'case': case,
           'expect': {'sig': violation['sig'], 'what': violation['what']}}
    name = '%s-%s.json' % (prop_id, digest(doc))
    path = os.path.join(REPLAY_DIR, name)
    with open(path, 'w') as f:
        json.dump(doc, f, indent=1, sort_keys=True, default=repr)
    return path


def write_history_replay(prop_id, cases, violation):
    """Replay file for a violation that needs process history: the cases are
    run in order in ONE fresh interpreter."""
    os.makedirs(REPLAY_DIR, exist_ok=True)
    doc = {'property': prop_id, 'cases': cases,
           'expect': {'sig': violation['sig'], 'what': violation['what']}}
    name = '%s-hist-%s.json' % (prop_id, digest(doc))
    path = os.path.join(REPLAY_DIR, name)
    with open(path, 'w') as f:
        json.dump(doc, f, indent=1, sort_keys=True, default=repr)
    return path


def reproduce_with_history(prop_id, prefix, case, v, max_tests=60):
    """The violation did not reproduce from its case alone: it depends on what
    the process executed before.  Replay the block prefix + case in a fresh
    interpreter, then delta-debug the prefix.  -> replay path or None."""
    sig = v['sig']
    budget = [max_tests]

    def test(pre):
        if budget[0] <= 0:
            return False
        budget[0] -= 1
        path = write_history_replay(prop_id, list(pre) + [case], v)
        sigs, rc, err = replay_in_fresh_interpreter(prop_id, path)
        ok = sig in sigs
        if not ok:
            try:
                os.unlink(path)
            except OSError:
                pass
        return ok

    if not test(prefix):
        return None
    small = ddmin(prefix, test) if len(prefix) > 1 else prefix
    path = write_history_replay(prop_id, list(small) + [case], v)
    sigs, rc, err = replay_in_fresh_interpreter(prop_id, path)
    if sig in sigs:
        return path
    return None


def replay_in_fresh_interpreter(prop_id, path):
    """-> set of violation signatures reproduced by a fresh process."""
    env = dict(os.environ)
    env['PYTHONHASHSEED'] = '0'
    p = subprocess.run([sys.executable, os.path.join(VERIF, 'check.py'),
                        prop_id, '--replay', path, '--sigs'],
                       stdout=subprocess.PIPE, stderr=subprocess.PIPE,
                       env=env, timeout=600)
    sigs = set()
    for line in p.stdout.decode('utf8', 'replace').splitlines():
        if line.startswith('SIG '):
            sigs.add(line[4:])
    return sigs, p.returncode, p.stderr.decode('utf8', 'replace')[-2000:]


def run_check(prop, tier, verif_seed, workers=None, budget_s=None,
                                       block_size=None, max_report=6):
    """Drive a whole check; returns exit code."""
    t0 = time.time()
    workers = workers or min(16, os.cpu_count() or 1)
    known, fixed = load_known(prop.ID)
    print('VERIF_SEED=%d property=%s tier=%s workers=%d' % (
                                     verif_seed, prop.ID, tier, workers))
    sys.stdout.flush()

    cases = prop.gen_cases(tier, verif_seed)
    block_size = block_size or getattr(prop, 'BLOCK', 200)
    budget_s = budget_s or prop.BUDGET[tier]
    deadline = t0 + budget_s

    def work(block):
        out = []
        for case in block:
            try:
                r = prop.run_case(case)
            except Exception:
                r = {'harness_error': traceback.format_exc()}
            out.append(r)
        return out

    block_iter = chunked(cases, block_size)
    blocks = {}         # idx -> block, for the blocks that were issued
    agg = Aggregate(prop)
    harness_errors = []
    viol_cases = {}     # sig -> (case, violation, block idx, pos)
    by_block = {}
    for idx, st, payload in parallel_blocks(work, block_iter, workers,
                              getattr(prop, 'BLOCK_TIMEOUT', 600), deadline,
                              issued=blocks):
        by_block[idx] = (st, payload)
    # what the budget did not reach
    n_total = getattr(prop, 'N_CASES', {}).get(tier)
    if n_total is not None and not getattr(prop, 'N_CASES_IGNORE', False):
        skipped = max(0, n_total - sum(len(b) for b in blocks.values()))
    else:
        skipped = sum(len(b) for b in block_iter)
    for idx in sorted(by_block):
        st, payload = by_block[idx]
        if st != 'ok':
            harness_errors.append('block %d: %s %s' % (idx, st,
                                                  (payload or '')[-1500:]))
            continue
        for pos, (case, r) in enumerate(zip(blocks[idx], payload)):
            if 'harness_error' in r:
                harness_errors.append(r['harness_error'][-1500:])
                continue
            agg.add(case, r)
            for v in r['violations']:
                if v['sig'] not in viol_cases:
                    viol_cases[v['sig']] = (case, v, idx, pos)

    exit_code = EXIT_OK
    n_hist = 0
    new_violations = 0
    known_hit = []
    for sig in sorted(viol_cases):
        case, v, bidx, bpos = viol_cases[sig]
        if sig in known:
            known_hit.append(sig)
            print('KNOWN-FINDING: property=%s %s' % (prop.ID,
                                                     known[sig]['what']))
            continue
        if new_violations >= max_report:
            # enough replay files; further signatures are counted and listed
            new_violations += 1
            print('VIOLATION-ALSO property=%s sig=%s (not minimised)' % (
                                                            prop.ID, sig))
            continue
        # minimise, write, replay in a fresh interpreter
        try:
            small = prop.minimize(case, sig) if hasattr(prop, 'minimize') \
                                                                   else case
        except Exception:
            small = case
        path = write_replay(prop.ID, small, v)
        sigs, rc, err = replay_in_fresh_interpreter(prop.ID, path)
        if sig in sigs:
            new_violations += 1
            exit_code = EXIT_VIOLATION
            print('VIOLATION property=%s replay=%s' % (prop.ID, path))
            print('  sig: %s' % sig)
            print('  what: %s' % v['what'][:600])
        else:
            # history dependence: replay what this worker executed before it
            hpath = None
            if bpos > 0 and n_hist < 6:
                n_hist += 1
                hpath = reproduce_with_history(prop.ID,
                                       blocks[bidx][:bpos], case, v)
            if hpath is not None:
                new_violations += 1
                exit_code = EXIT_VIOLATION
                print('VIOLATION property=%s replay=%s' % (prop.ID, hpath))
                print('  sig: %s' % sig)
                print('  what: %s' % v['what'][:600])
                print('  note: depends on process history; the replay file '
                      'lists the minimised sequence of cases')
            else:
                harness_errors.append('non-reproducible violation %s (replay '
                    'rc=%r sigs=%r)\n%s' % (sig, rc, sorted(sigs), err))
    wall = time.time() - t0
    ev = agg.evidence(tier, verif_seed, wall, new_violations, known_hit,
                      skipped, harness_errors)
    os.makedirs(EVIDENCE_DIR, exist_ok=True)
    tmp = os.path.join(EVIDENCE_DIR, '%s.json.tmp' % prop.ID)
    with open(tmp, 'w') as f:
        json.dump(ev, f, indent=1, sort_keys=True, default=repr)
    os.replace(tmp, os.path.join(EVIDENCE_DIR, '%s.json' % prop.ID))
    print('%s: %d runs, %d distinct non-trivial, %d new violation(s), '
          '%d known finding(s) matched, %d skipped (budget), %.1fs' % (
              prop.ID, agg.n, len(agg.signatures), new_violations,
              len(known_hit), skipped, wall))
    if harness_errors:
        for h in harness_errors[:5]:
            print('HARNESS-ERROR: %s' % h, file=sys.stderr)
        if exit_code == EXIT_OK:
            exit_code = EXIT_HARNESS
    if agg.n == 0 and exit_code == EXIT_OK:
        print('HARNESS-ERROR: no run completed', file=sys.stderr)
        exit_code = EXIT_HARNESS
    return exit_code


class Aggregate(object):
    def __init__(self, prop):
        self.prop = prop
        self.n = 0
        self.signatures = set()
        self.fired = {}
        self.probes = {}
        self.extra = {}
        self.steps = 0
        self.simtime = 0.0
        self.samples = []
        self.digest = hashlib.sha256()
        self.viol_total = 0

    def add(self, case, r):
        self.n += r.get('evaluations', 1)
        if 'distinct_keys' in r:
            self.signatures.update(r['distinct_keys'])
        elif r.get('nontrivial'):
            self.signatures.add(r['signature'])
        for k, v in r.get('fired', {}).items():
            self.fired[k] = self.fired.get(k, 0) + v
        for k, v in r.get('probes', {}).items():
            self.probes[k] = self.probes.get(k, 0) + v
        for k, v in r.get('extra_probes', {}).items():
            self.extra[k] = self.extra.get(k, 0) + v
        self.steps += r.get('steps', 0)
        self.simtime += r.get('simtime', 0.0)
        self.viol_total += len(r['violations'])
        self.digest.update(r.get('digest', '').encode())
        if len(self.samples) < 3 and r.get('nontrivial'):
            self.samples.append({'case': case,
                                 'signature': r['signature'],
                                 'outcome': r.get('summary')})

    def evidence(self, tier, seed, wall, new_violations, known_hit, skipped,
                                                              harness_errors):
        p = self.prop
        per_hour = int(self.n / wall * 3600) if wall > 0 else 0
        cov = {
            'evaluations': self.n,
            'distinct_nontrivial': len(self.signatures),
            'rule': p.RULE,
            'samples': self.samples,
            'runs_per_hour': per_hour,
            'seeds_per_hour': per_hour,
            'logical_steps': self.steps,
            'simulated_time_s': round(self.simtime, 3),
            'fault_kinds_fired': dict(sorted(self.fired.items())),
            'probes': dict(sorted(self.probes.items())),
            'components': p.COMPONENTS,
            'known_findings_matched': sorted(known_hit),
            'violating_runs_total': self.viol_total,
            'runs_skipped_for_budget': skipped,
            'harness_errors': len(harness_errors),
            'event_log_digest': self.digest.hexdigest()[:32],
        }
        if self.extra:
            # e.g. C12: thread switches per source function (top 40)
            top = sorted(self.extra.items(), key=lambda kv: -kv[1])[:40]
            cov['switches_per_function'] = dict(top)
            cov['functions_with_switches'] = len(self.extra)
        extra = getattr(p, 'extra_evidence', None)
        if extra:
            cov.update(extra())
        return {
            'property_id': p.ID,
            'tier': tier,
            'seed': seed,
            'level': p.LEVEL,
            'coverage': cov,
            'assumptions': p.ASSUMPTIONS,
            'wall_s': round(wall, 2),
            'violations': new_violations,
        }


def ddmin(items, test):
    """Classic delta debugging: smallest sub-list of `items` for which
    test(sub) is still True (test(items) assumed True)."""
    n = 2
    items = list(items)
    while len(items) >= 2:
        size = max(1, len(items) // n)
        subsets = [items[i:i + size] for i in range(0, len(items), size)]
        reduced = False
        for i in range(len(subsets)):
            comp = [x for j, s in enumerate(subsets) if j != i for x in s]
            if test(comp):
                items = comp
                n = max(n - 1, 2)
                reduced = True
                break
        if not reduced:
            if n >= len(items):
                break
            n = min(len(items), n * 2)
    if len(items) == 1 and test([]):
        return []
    return items
