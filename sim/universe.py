"""Workload universes: factories that build FRESH spyne classes, services and
applications on every call, plus a type-directed request encoder for every input
protocol.  User code (service functions, listeners) lives here: it records its
invocations and raises on command (`Ctl`)."""

import base64
import datetime
import decimal
import json
import uuid as _uuid

from . import bootstrap
bootstrap()

import msgpack
import yaml
from lxml import etree

from spyne import Application, Service, rpc as _rpc, Fault
from spyne.evmgr import EventManager
from spyne.model.complex import ComplexModel, Array, Iterable
from spyne.model.primitive import (Integer, Integer32, Unicode, Boolean, Double,
    Decimal, Date, DateTime, Time, Duration, Uuid)
from spyne.model.binary import ByteArray
from spyne.model.enum import Enum
from spyne.protocol.soap import Soap11, Soap12
from spyne.protocol.xml import XmlDocument
from spyne.protocol.json import JsonDocument
from spyne.protocol.yaml import YamlDocument
from spyne.protocol.msgpack import MessagePackDocument, MessagePackRpc
from spyne.protocol.http import HttpRpc
from spyne.server.wsgi import WsgiApplication

NS_SOAP11 = 'http://schemas.xmlsoap.org/soap/envelope/'
NS_SOAP12 = 'http://www.w3.org/2003/05/soap-envelope'

# ---------------------------------------------------------------------------
# type specs


class Spec(object):
    kind = 'prim'

    def __init__(self, name, factory, gen, text, js=None, facets=None):
        self.name = name
        self.factory = factory      # () -> spyne class (fresh when customised)
        self.gen = gen              # rng -> python value (plain data)
        self.text = text            # value -> text form (XML / HttpRpc)
        self.js = js or (lambda v: v)   # value -> JSON-able form
        self.facets = facets or {}
        self.cls = None

    def build(self):
        self.cls = self.factory()
        return self.cls


_ALPHA = u'abcdefghijklmnopqrstuvwxyz'
_UNI = u'abcXYZ09 _-\xe9œ中'


def _g_uni(rng, lo=0, hi=12, alphabet=_UNI):
    return u''.join(rng.choice(alphabet) for _ in range(rng.randint(lo, hi)))


def _g_date(rng):
    return datetime.date(rng.randint(1900, 2100), rng.randint(1, 12),
                                                             rng.randint(1, 28))


def _g_time(rng):
    return datetime.time(rng.randint(0, 23), rng.randint(0, 59),
                              rng.randint(0, 59), rng.choice((0, 0, 5, 123456)))


def _g_dt(rng):
    return datetime.datetime.combine(_g_date(rng), _g_time(rng))


def _t_dur(v):
    # v = (days, seconds)
    d, s = v
    out = 'P'
    if d:
        out += '%dD' % d
    if s or not d:
        out += 'T%dS' % s
    return out


def prim_specs():
    """name -> Spec; every call returns new Spec objects (classes are built
    lazily by build())."""
    return [
        Spec('int', lambda: Integer, lambda r: r.choice(
            (0, 1, -1, 7, 255, 65536, -2**31, 2**40, r.randint(-10**6, 10**6))),
            str),
        Spec('int_rng', lambda: Integer(ge=0, le=1000),
            lambda r: r.randint(0, 1000), str, facets=dict(ge=0, le=1000)),
        Spec('i32', lambda: Integer32, lambda r: r.randint(-99999999, 2**31 - 1),
            str),
        Spec('uni', lambda: Unicode, lambda r: _g_uni(r, 1, 12), lambda v: v),
        Spec('uni_len', lambda: Unicode(min_len=1, max_len=8),
            lambda r: _g_uni(r, 1, 8), lambda v: v,
            facets=dict(min_len=1, max_len=8)),
        Spec('uni_pat', lambda: Unicode(pattern=u'[a-z]{1,6}'),
            lambda r: _g_uni(r, 1, 6, _ALPHA), lambda v: v,
            facets=dict(pattern=u'[a-z]{1,6}')),
        Spec('bool', lambda: Boolean, lambda r: r.random() < .5,
            lambda v: 'true' if v else 'false'),
        Spec('dbl', lambda: Double, lambda r: r.choice(
            (0.0, 1.5, -2.25, 1e10, r.randint(-999, 999) / 8.0)), repr),
        Spec('dec', lambda: Decimal, lambda r: '%d.%02d' % (
            r.randint(-999, 999), r.randint(0, 99)), str, js=str),
        Spec('date', lambda: Date, _g_date, lambda v: v.isoformat(),
            js=lambda v: v.isoformat()),
        Spec('dt', lambda: DateTime, _g_dt, lambda v: v.isoformat(),
            js=lambda v: v.isoformat()),
        # a date with a range facet (xs:minInclusive in the schema)
        Spec('date_ge', lambda: Date(ge=datetime.date(1900, 1, 1)), _g_date,
            lambda v: v.isoformat(), js=lambda v: v.isoformat()),
        Spec('time', lambda: Time, _g_time, lambda v: v.isoformat(),
            js=lambda v: v.isoformat()),
        Spec('dur', lambda: Duration,
            lambda r: (r.randint(0, 400), r.randint(0, 86399)), _t_dur,
            js=_t_dur),
        Spec('uuid', lambda: Uuid,
            lambda r: str(_uuid.UUID(int=r.getrandbits(128))), str, js=str),
        Spec('enum', lambda: Enum('red', 'green', 'blue', type_name='Color'),
            lambda r: r.choice(('red', 'green', 'blue')), lambda v: v),
        Spec('bytes', lambda: ByteArray,
            lambda r: bytes(bytearray(r.randint(0, 255)
                                         for _ in range(r.randint(1, 10)))),
            lambda v: base64.b64encode(v).decode('ascii'),
            js=lambda v: base64.b64encode(v).decode('ascii')),
        Spec('bytes_url', lambda: ByteArray(encoding='urlsafe_base64'),
            lambda r: bytes(bytearray(r.randint(0, 255)
                                         for _ in range(r.randint(1, 10)))),
            lambda v: base64.urlsafe_b64encode(v).decode('ascii'),
            js=lambda v: base64.urlsafe_b64encode(v).decode('ascii')),
    ]


class AttrSpec(object):
    """An XmlAttribute(T) member: an attribute of the parent element in XML, an
    ordinary key in the dict and flat protocols."""
    kind = 'xmlattr'

    def __init__(self, item):
        self.item = item
        self.name = 'attr_' + item.name
        self.cls = None

    def build(self):
        if self.cls is None:
            from spyne.model.complex import XmlAttribute
            base = self.item.build() if self.item.cls is None else self.item.cls
            self.cls = XmlAttribute(base)
        return self.cls

    def gen(self, rng):
        return self.item.gen(rng)


class MultiSpec(object):
    """A primitive member that may occur several times (max_occurs > 1)."""
    kind = 'multi'

    def __init__(self, item):
        self.item = item
        self.name = 'multi_' + item.name
        self.cls = None

    def build(self):
        if self.cls is None:
            base = self.item.build() if self.item.cls is None else self.item.cls
            self.cls = base.customize(max_occurs='unbounded')
        return self.cls

    def gen(self, rng):
        return [self.item.gen(rng) for _ in range(rng.randint(0, 3))]


class ComplexSpec(object):
    kind = 'complex'

    def __init__(self, name, ns, fields, base=None):
        self.name = name
        self.ns = ns
        self.fields = fields    # [(fname, spec)]   own fields only
        self.base = base        # ComplexSpec or None
        self.cls = None

    def all_fields(self):
        return (self.base.all_fields() if self.base else []) + self.fields

    def build(self):
        if self.cls is not None:
            return self.cls
        ns = {'__namespace__': self.ns}
        # declaration order must be preserved: _type_info as a list of pairs
        ns['_type_info'] = [(fn, fs.build() if fs.cls is None else fs.cls)
                                                     for fn, fs in self.fields]
        base = self.base.build() if self.base is not None else ComplexModel
        self.cls = type(self.name, (base,), ns)
        return self.cls

    def gen(self, rng):
        return dict((fn, fs.gen(rng)) for fn, fs in self.all_fields()
                                                   if rng.random() < .85)


class ArraySpec(object):
    kind = 'array'

    def __init__(self, item, lo=0, hi=3):
        self.item = item
        self.lo, self.hi = lo, hi
        self.cls = None
        self.name = 'arr_' + item.name

    def build(self):
        if self.cls is None:
            self.cls = Array(self.item.build() if self.item.cls is None
                                                            else self.item.cls)
        return self.cls

    def gen(self, rng):
        return [self.item.gen(rng) for _ in range(rng.randint(self.lo, self.hi))]


# ---------------------------------------------------------------------------
# user-code control


class VerifSecretError(Exception):
    """A non-Fault exception whose text carries a per-run secret token."""


class VerifSecretKeyError(KeyError):
    pass


class Ctl(object):
    """What user code does in this run.  Set before the run, read-only during
    it (so user functions stay deterministic functions of their arguments)."""

    def __init__(self):
        self.calls = []         # (method, phase)   list.append is atomic
        self.inject = {}        # site -> callable() -> exception instance
        self.gen_len = None     # overrides the n argument of generators
        self.bad_return = False # return an unserialisable value from `bad`

    def hit(self, site, method=None):
        mk = self.inject.get(site)
        if mk is None and method is not None:
            mk = self.inject.get('%s:%s' % (site, method))
        if mk is not None:
            raise mk()

    def n_calls(self, method=None):
        return len([c for c in self.calls if c[1] == 'enter' and
                                       (method is None or c[0] == method)])


class Method(object):
    def __init__(self, name, args, ret, kind='plain', out_names=None):
        self.name = name
        self.args = args            # [(argname, spec)]
        self.ret = ret              # spec | None | tuple of specs
        self.kind = kind
        self.out_names = out_names


class Universe(object):
    """A fresh set of classes + one service class + metadata."""

    def __init__(self, rng, family='prims', tns=None, n_prims=None,
                                with_sub=True, on_service=None, ctl=None):
        self.family = family
        self.ctl = ctl or Ctl()
        self.on_service = on_service
        self.method_evmgr = EventManager(None)
        self.tns = tns or rng.choice(('tns', 'urn:verif:app', 'http://v/x'))
        self.methods = {}
        self.params = {'family': family, 'tns': self.tns}
        self._build(rng, n_prims, with_sub)

    # -- construction ------------------------------------------------------
    def _build(self, rng, n_prims, with_sub):
        ctl = self.ctl
        prims = prim_specs()
        if n_prims is None:
            n_prims = rng.randint(3, len(prims))
        chosen = prims[:]
        rng.shuffle(chosen)
        chosen = sorted(chosen[:n_prims], key=lambda s: [p.name for p in
                                                   prim_specs()].index(s.name))
        self.params['prims'] = [s.name for s in chosen]
        self.prims = chosen

        ns_inner = rng.choice(('ns.inner', self.tns, 'urn:verif:inner'))
        ns_p = rng.choice(('ns.p', self.tns, 'urn:verif:p'))
        self.params['ns'] = [ns_inner, ns_p]

        inner_prims = [s for s in prim_specs() if s.name in ('int', 'uni')]
        self.inner = ComplexSpec('Inner', ns_inner,
                          [('k', inner_prims[0]), ('s', inner_prims[1])])
        pfields = [('a_' + s.name, s) for s in chosen]
        pfields.append(('a_inner', self.inner))
        pfields.append(('a_inners', ArraySpec(self.inner)))
        ints = [s for s in prim_specs() if s.name == 'int'][0]
        pfields.append(('a_arr', ArraySpec(ints)))
        multi_uni = [s for s in prim_specs() if s.name == 'uni'][0]
        pfields.append(('a_multi', MultiSpec(multi_uni)))
        attr_int = [s for s in prim_specs() if s.name == 'int_rng'][0]
        pfields.append(('a_attr', AttrSpec(attr_int)))
        self.P = ComplexSpec('P', ns_p, pfields)
        for s in chosen:
            s.build()
        inner_prims[0].build(); inner_prims[1].build(); ints.build()
        self.inner.build()
        self.P.build()

        flat_args = [('a_' + s.name, s) for s in chosen]
        s_int = Spec('int', lambda: Integer, lambda r: r.randint(0, 4), str)
        s_int.build()
        s_uni = Spec('uni', lambda: Unicode, lambda r: _g_uni(r, 1, 6),
                                                                  lambda v: v)
        s_uni.build()
        self.s_int, self.s_uni = s_int, s_uni
        arr_inner = ArraySpec(self.inner)
        arr_inner.build()

        M = self.methods
        M['prims'] = Method('prims', flat_args, s_uni)
        M['echo'] = Method('echo', [('p', self.P)], self.P)
        M['inners'] = Method('inners', [('n', s_int), ('tag', s_uni)],
                                                                    arr_inner)
        M['gen'] = Method('gen', [('n', s_int), ('tag', s_uni)],
                                            ArraySpec(s_uni), kind='generator')
        M['multi'] = Method('multi', [('a', s_int)], (s_int, s_uni),
                                                       out_names=['x', 'y'])
        M['fail'] = Method('fail', [('a', s_int)], s_int, kind='fail')
        M['noargs'] = Method('noargs', [], s_uni)
        M['nothing'] = Method('nothing', [('a', s_int)], None)
        M['bad'] = Method('bad', [('a', s_int)], s_int, kind='bad')
        s_rng = Spec('int_rng', lambda: Integer(ge=0, le=1000),
                                       lambda r: r.randint(0, 1000), str)
        s_rng.build()
        s_pat = Spec('uni_pat', lambda: Unicode(pattern=u'[a-z]{1,6}'),
                          lambda r: _g_uni(r, 1, 6, _ALPHA), lambda v: v)
        s_pat.build()
        M['strict'] = Method('strict', [('a', s_rng), ('s', s_pat)], s_int)

        # a class with per-protocol attributes (prot_attrs): `hidden` is
        # excluded from the output of every protocol
        all_prots = [c for c, _ in PROTOCOLS.values()]
        PA = type('PA', (ComplexModel,), {
            '__namespace__': ns_p,
            '_type_info': [
                ('visible', Unicode),
                ('hidden', Unicode(pa=dict((c, dict(exc=True))
                                                    for c in all_prots))),
                # a protocol-specific position: `num` is written first
                ('num', Integer(pa=dict((c, dict(order=0))
                                                    for c in all_prots))),
                ('tail', Unicode),
            ]})
        self.PA = PA
        # a small class tree returned through a (possibly) polymorphic protocol
        Base = type('Base', (ComplexModel,), {'__namespace__': ns_inner,
                    '_type_info': [('k', Integer), ('name', Unicode)]})
        Derived = type('Derived', (Base,), {'__namespace__': ns_p,
                    '_type_info': [('extra', Unicode)]})
        # ... and two subclasses living in namespaces nothing else uses
        Far1 = type('Far1', (Base,), {'__namespace__': 'urn:verif:far1',
                    '_type_info': [('f1', Unicode)]})
        Far2 = type('Far2', (Base,), {'__namespace__': 'urn:verif:far2',
                    '_type_info': [('f2', Integer)]})
        self.Base, self.Derived = Base, Derived
        self.Far1, self.Far2 = Far1, Far2
        # two different classes that share one type name (different
        # namespaces): anything keyed by name instead of class mixes them up
        s_u2 = Spec('uni', lambda: Unicode, lambda r: _g_uni(r, 1, 6),
                                                                lambda v: v)
        s_u2.build()
        self.item1 = ComplexSpec('Item', 'urn:verif:t1',
                                 [('name', s_u2), ('qty', s_int)])
        self.item2 = ComplexSpec('Item', 'urn:verif:t2',
                                 [('qty', s_u2), ('name', s_int),
                                  ('extra', s_u2)])
        self.item1.build()
        self.item2.build()
        # a DateTime with a custom text format (not usable under SOAP, which
        # insists on ISO 8601, nor with the lxml validator: xs:dateTime)
        s_fmt = Spec('dt_fmt', lambda: DateTime(dt_format='%Y-%m-%d %H:%M'),
                     lambda r: _g_dt(r).replace(second=0, microsecond=0),
                     lambda v: v.strftime('%Y-%m-%d %H:%M'),
                     js=lambda v: v.strftime('%Y-%m-%d %H:%M'))
        s_fmt.build()
        M['fmt'] = Method('fmt', [('when', s_fmt)], s_uni)
        it_spec = ArraySpec(s_int)
        it_spec.cls = Iterable(Integer)
        M['total'] = Method('total', [('xs', it_spec)], s_int)
        M['mtom'] = Method('mtom', [('a', s_int)], s_uni)
        M['item1'] = Method('item1', [('i', self.item1)], s_uni)
        M['item2'] = Method('item2', [('i', self.item2)], s_uni)
        M['pa'] = Method('pa', [('a', s_int)], None)
        M['poly'] = Method('poly', [('a', s_int)], None)

        P = self.P.cls
        Inner = self.inner.cls
        pnames = [fn for fn, _ in self.P.all_fields()]

        def _summ(*args):
            return u'|'.join(_summary(a) for a in args)

        def f_prims(ctx, *args):
            ctl.calls.append(('prims', 'enter'))
            ctl.hit('fn', 'prims')
            return _summ(*args)

        def f_echo(ctx, p):
            ctl.calls.append(('echo', 'enter'))
            ctl.hit('fn', 'echo')
            return p

        def f_inners(ctx, n, tag):
            ctl.calls.append(('inners', 'enter'))
            ctl.hit('fn', 'inners')
            return [Inner(k=i, s=u'%s%d' % (tag, i)) for i in range(_cap(n))]

        def f_gen(ctx, n, tag):
            # a plain function returning a generator: entry is observable
            # when spyne calls it, not when the body first runs
            ctl.calls.append(('gen', 'enter'))
            ctl.hit('fn', 'gen')
            m = ctl.gen_len if ctl.gen_len is not None else _cap(n)

            def _items():
                for i in range(m):
                    ctl.hit('gen:%d' % i)
                    ctl.calls.append(('gen', 'item'))
                    yield u'%s-%d' % (tag, i)
                ctl.hit('gen:end')
                ctl.calls.append(('gen', 'exhausted'))
            return _items()

        def f_multi(ctx, a):
            ctl.calls.append(('multi', 'enter'))
            ctl.hit('fn', 'multi')
            if ctl.bad_return:
                return None         # two values were promised
            return _num(a) + 1, u'm%s' % (a,)

        def f_fail(ctx, a):
            ctl.calls.append(('fail', 'enter'))
            ctl.hit('fn', 'fail')
            return _num(a)

        def f_noargs(ctx):
            ctl.calls.append(('noargs', 'enter'))
            ctl.hit('fn', 'noargs')
            return u'nothing to see'

        def f_nothing(ctx, a):
            ctl.calls.append(('nothing', 'enter'))
            ctl.hit('fn', 'nothing')

        def f_bad(ctx, a):
            ctl.calls.append(('bad', 'enter'))
            ctl.hit('fn', 'bad')
            if ctl.bad_return:
                return object()     # not an integer: serialisation fails
            return _num(a)

        def f_strict(ctx, a, s):
            ctl.calls.append(('strict', 'enter'))
            ctl.hit('fn', 'strict')
            return _num(a) + (len(s) if isinstance(s, str) else 0)

        def f_fmt(ctx, when):
            ctl.calls.append(('fmt', 'enter'))
            ctl.hit('fn', 'fmt')
            return u'%s' % (when,)

        def f_total(ctx, xs):
            ctl.calls.append(('total', 'enter'))
            ctl.hit('fn', 'total')
            return sum(_num(x) for x in (xs or ()))

        def f_mtom(ctx, a):
            ctl.calls.append(('mtom', 'enter'))
            ctl.hit('fn', 'mtom')
            return u'm%s' % (a,)

        def f_item1(ctx, i):
            ctl.calls.append(('item1', 'enter'))
            ctl.hit('fn', 'item1')
            return u'1:%s:%s' % (getattr(i, 'name', None),
                                 getattr(i, 'qty', None))

        def f_item2(ctx, i):
            ctl.calls.append(('item2', 'enter'))
            ctl.hit('fn', 'item2')
            return u'2:%s:%s:%s' % (getattr(i, 'qty', None),
                          getattr(i, 'name', None), getattr(i, 'extra', None))

        def f_pa(ctx, a):
            ctl.calls.append(('pa', 'enter'))
            ctl.hit('fn', 'pa')
            return PA(visible=u'v%s' % (a,), hidden=u'h%s' % (a,),
                                          num=_num(a), tail=u't%s' % (a,))

        def f_poly(ctx, a):
            ctl.calls.append(('poly', 'enter'))
            ctl.hit('fn', 'poly')
            if _num(a) % 4 == 2:
                return Far1(k=_num(a), name=u'f%s' % (a,), f1=u'y%s' % (a,))
            if _num(a) % 4 == 3:
                return Far2(k=_num(a), name=u'g%s' % (a,), f2=_num(a) + 1)
            if _num(a) % 2:
                return Derived(k=_num(a), name=u'd%s' % (a,),
                                                      extra=u'x%s' % (a,))
            return Base(k=_num(a), name=u'b%s' % (a,))

        evmgr = self.method_evmgr

        shared_evmgrs = [evmgr]      # ONE list object for every method

        def rpc(*a, **kw):
            kw['_evmgrs'] = shared_evmgrs
            return _rpc(*a, **kw)

        ns = {}
        ns['strict'] = rpc(s_rng.cls, s_pat.cls, _returns=Integer)(f_strict)
        ns['fmt'] = rpc(s_fmt.cls, _returns=Unicode)(f_fmt)
        ns['total'] = rpc(it_spec.cls, _returns=Integer)(f_total)
        ns['item1'] = rpc(self.item1.cls, _returns=Unicode)(f_item1)
        # the response goes through apply_mtom on its way out
        ns['mtom'] = rpc(Integer, _returns=Unicode, _mtom=True)(f_mtom)
        ns['item2'] = rpc(self.item2.cls, _returns=Unicode)(f_item2)
        ns['pa'] = rpc(Integer, _returns=PA)(f_pa)
        ns['poly'] = rpc(Integer, _returns=Base)(f_poly)
        ns['prims'] = rpc(*[s.cls for _, s in flat_args], _returns=Unicode)(
                          _named(f_prims, [an for an, _ in flat_args]))
        ns['echo'] = rpc(P, _returns=P)(f_echo)
        ns['inners'] = rpc(Integer, Unicode, _returns=arr_inner.cls)(f_inners)
        ns['gen'] = rpc(Integer, Unicode, _returns=Iterable(Unicode))(f_gen)
        ns['multi'] = rpc(Integer, _returns=(Integer, Unicode),
                                     _out_variable_names=('x', 'y'))(f_multi)
        ns['fail'] = rpc(Integer, _returns=Integer)(f_fail)
        ns['noargs'] = rpc(_returns=Unicode)(f_noargs)
        ns['nothing'] = rpc(Integer)(f_nothing)
        ns['bad'] = rpc(Integer, _returns=Integer)(f_bad)
        self.service = type('Svc', (Service,), ns)
        self.services = [self.service]
        extra_bases = ()
        if self.on_service is not None:
            # may return extra base classes for the inheriting service
            extra_bases = tuple(self.on_service(self.service) or ())
        if with_sub:
            # an inheriting service: must inherit Svc's listeners (C14)
            def f_sub(ctx, a):
                ctl.calls.append(('sub', 'enter'))
                ctl.hit('fn', 'sub')
                return _num(a) * 2
            self.sub_service = type('SubSvc', (self.service,) + extra_bases,
                           {'sub': rpc(Integer, _returns=Integer)(f_sub)})
            M['sub'] = Method('sub', [('a', s_int)], s_int)
        else:
            self.sub_service = None

    # -- application -------------------------------------------------------
    def make_app(self, in_prot, out_prot, services=None):
        svcs = services
        if svcs is None:
            svcs = list(self.services)
            if self.sub_service is not None:
                # SubSvc re-declares nothing of Svc: only its own method is
                # public there, so both can live in one application.
                svcs.append(self.sub_service)
        return Application(svcs, self.tns, in_protocol=in_prot,
                                          out_protocol=out_prot, name='VApp')

    # -- request values ----------------------------------------------------
    def gen_args(self, rng, mname):
        m = self.methods[mname]
        return dict((an, sp.gen(rng)) for an, sp in m.args)


def _num(a):
    """User code is total: whatever spyne hands over, it does not raise."""
    return a if isinstance(a, int) and not isinstance(a, bool) and \
                                                  abs(a) < 2 ** 62 else 0


def _cap(n):
    n = _num(n)
    return max(0, min(n, 50))


def _named(fn, argnames):
    """Give f(ctx, *args) a real signature so spyne derives argument names."""
    src = 'def %s(ctx, %s):\n    return _f(ctx, %s)\n' % (
        fn.__name__[2:], ', '.join(argnames), ', '.join(argnames))
    d = {'_f': fn}
    exec(src, d)
    return d[fn.__name__[2:]]


def _summary(v):
    if isinstance(v, (bytes, bytearray)):
        return base64.b16encode(bytes(v)).decode('ascii')
    if isinstance(v, (list, tuple)):
        # ByteArray natives are sequences of byte chunks
        try:
            return base64.b16encode(b''.join(v)).decode('ascii')
        except TypeError:
            return u','.join(_summary(x) for x in v)
    if isinstance(v, float):
        return repr(v)
    return u'%s' % (v,)


# ---------------------------------------------------------------------------
# protocols


PROTOCOLS = {
    'xml': (XmlDocument, 'xml'),
    'soap11': (Soap11, 'xml'),
    'soap12': (Soap12, 'xml'),
    'json': (JsonDocument, 'dict'),
    'yaml': (YamlDocument, 'dict'),
    'msgpack': (MessagePackDocument, 'dict'),
    'msgpackrpc': (MessagePackRpc, 'dict'),
    'httprpc': (HttpRpc, 'flat'),
}

IN_PROTOCOLS = ['xml', 'soap11', 'soap12', 'json', 'yaml', 'msgpack',
                                                     'msgpackrpc', 'httprpc']
OUT_PROTOCOLS = list(IN_PROTOCOLS)
XML_FAMILY = ('xml', 'soap11', 'soap12')
SOAP_FAMILY = ('soap11', 'soap12')


def make_protocol(name, validator=None, **kw):
    cls = PROTOCOLS[name][0]
    if validator is not None:
        kw['validator'] = validator
    return cls(**kw)


def validators_for(name):
    if name in XML_FAMILY:
        return [None, 'soft', 'lxml']
    return [None, 'soft']


CONTENT_TYPES = {
    'xml': 'text/xml; charset=utf-8',
    'soap11': 'text/xml; charset=utf-8',
    'soap12': 'application/soap+xml; charset=utf-8',
    'json': 'application/json',
    'yaml': 'text/yaml',
    'msgpack': 'application/x-msgpack',
    'msgpackrpc': 'application/x-msgpack',
    'httprpc': None,
}


# ---------------------------------------------------------------------------
# request encoder


class Request(object):
    """A transport-level request (what the gateway needs)."""

    def __init__(self, verb, path, qs, ctype, body, label, spans=None):
        self.verb = verb
        self.path = path
        self.qs = qs
        self.ctype = ctype
        self.body = body
        self.label = label          # (method, kind) for reports
        self.spans = spans or []    # byte spans of leaf values in body
        self.env = None             # extra WSGI environ entries

    def describe(self):
        return {'verb': self.verb, 'path': self.path, 'qs': self.qs,
                'ctype': self.ctype,
                'body_b64': base64.b64encode(self.body).decode('ascii'),
                'label': list(self.label), 'env': self.env}

    @classmethod
    def from_description(cls, d):
        r = cls(d['verb'], d['path'], d['qs'], d['ctype'],
                         base64.b64decode(d['body_b64']), tuple(d['label']))
        r.env = d.get('env')
        return r

    def with_body(self, body):
        r = Request(self.verb, self.path, self.qs, self.ctype, body,
                                                                    self.label)
        r.env = self.env
        return r

    def _relabel(self, label):
        self.label = label
        return self


XSI_NIL = '{http://www.w3.org/2001/XMLSchema-instance}nil'
XSI_TYPE_ATTR = '{http://www.w3.org/2001/XMLSchema-instance}type'
_XSI_TYPE = [False, 0]  # complex elements say their own (declared) type, the way
                     # rpc/encoded-minded toolkits do
_TNS = [None]       # target namespace of the application being encoded for


def _xml_value(parent, ns, name, spec, value, nil=False):
    if value is None:
        if nil:
            etree.SubElement(parent, '{%s}%s' % (ns, name)).set(XSI_NIL,
                                                                 'true')
        return
    if spec.kind == 'prim':
        etree.SubElement(parent, '{%s}%s' % (ns, name)).text = spec.text(value)
    elif spec.kind == 'complex':
        if _XSI_TYPE[0] and spec.cls.get_namespace() and \
                spec.cls.get_namespace() not in [u for p_, u in
                                          parent.nsmap.items() if p_]:
            # (a fresh prefix each time: re-binding one that an ancestor
            # uses would drag the element's own name along)
            _XSI_TYPE[1] += 1
            el = etree.SubElement(parent, '{%s}%s' % (ns, name),
                   nsmap={'ty%d' % _XSI_TYPE[1]: spec.cls.get_namespace()})
        else:
            el = etree.SubElement(parent, '{%s}%s' % (ns, name))
        # fields of a class live in the namespace of the class that declares
        # them (parents first)
        chain = []
        s = spec
        while s is not None:
            chain.insert(0, s)
            s = s.base
        for s in chain:
            cns = s.cls.get_namespace()
            for fn, fs in s.fields:
                if fs.kind == 'xmlattr':
                    if value.get(fn) is not None:
                        el.set(fn, fs.item.text(value[fn]))
                    continue
                if fn in value:
                    _xml_value(el, cns, fn, fs, value[fn], nil)
                elif nil and fs.kind == 'prim':
                    _xml_value(el, cns, fn, fs, None, nil)
        if _XSI_TYPE[0]:
            tns_ = spec.cls.get_namespace()
            for pfx, uri in sorted(el.nsmap.items(), key=str):
                if uri == tns_ and pfx:
                    el.set(XSI_TYPE_ATTR, '%s:%s' % (pfx,
                                                 spec.cls.get_type_name()))
                    break
    elif spec.kind == 'multi':
        for item in value:
            etree.SubElement(parent, '{%s}%s' % (ns, name)).text = \
                                                       spec.item.text(item)
    elif spec.kind == 'array':
        el = etree.SubElement(parent, '{%s}%s' % (ns, name))
        acls = spec.cls
        member_name, = acls._type_info.keys()
        # (an anonymous array gets the namespace of the class holding it when
        # the application is built, which may not have happened yet)
        ans = acls.get_namespace()
        if not ans:
            ans = (spec.item.cls.get_namespace()
                   if spec.item.kind == 'complex' else None) or _TNS[0] or ns
        for item in value:
            _xml_value(el, ans, member_name, spec.item, item, nil)
    else:
        raise ValueError(spec.kind)


def _dict_value(spec, value, wrappers, raw_bytes=False):
    if value is None:
        return None
    if spec.kind == 'prim':
        if raw_bytes and spec.name == 'bytes':
            return value
        return spec.js(value)
    if spec.kind == 'complex':
        d = dict((fn, _dict_value(fs, value[fn], wrappers, raw_bytes))
                            for fn, fs in spec.all_fields() if fn in value)
        if wrappers:
            return {spec.cls.get_type_name(): d}
        return d
    if spec.kind in ('array', 'multi'):
        return [_dict_value(spec.item, v, wrappers, raw_bytes) for v in value]
    if spec.kind == 'xmlattr':
        return _dict_value(spec.item, value, wrappers, raw_bytes)
    raise ValueError(spec.kind)


def _flat_value(out, prefix, spec, value):
    if value is None:
        return
    if spec.kind == 'prim':
        out.append((prefix, spec.text(value)))
    elif spec.kind == 'complex':
        for fn, fs in spec.all_fields():
            if fn in value:
                _flat_value(out, prefix + '.' + fn, fs, value[fn])
    elif spec.kind == 'xmlattr':
        out.append((prefix, spec.item.text(value)))
    elif spec.kind == 'multi':
        for item in value:
            out.append((prefix, spec.item.text(item)))
    elif spec.kind == 'array':
        for i, item in enumerate(value):
            if spec.item.kind == 'prim':
                out.append((prefix, spec.item.text(item)))
            else:
                _flat_value(out, '%s[%d]' % (prefix, i), spec.item, item)


def _quote(s):
    from urllib.parse import quote
    return quote(s.encode('utf8') if isinstance(s, str) else s, safe='')


def encode_request(uni, in_prot, mname, args, wrappers=False, app=None,
                                          method_name=None, xsi_nil=False,
                                          xsi_type=False):
    """Valid request for `mname(**args)` in input protocol `in_prot`.
    `method_name` overrides the name put on the wire (unknown-method case)."""
    m = uni.methods[mname]
    wire = method_name or mname
    tns = uni.tns
    _TNS[0] = tns
    kind = PROTOCOLS[in_prot][1]
    label = (mname, 'call')
    if kind == 'xml':
        root = etree.Element('{%s}%s' % (tns, wire), nsmap={'t': tns})
        _XSI_TYPE[0] = bool(xsi_type)
        _XSI_TYPE[1] = 0
        try:
            for an, sp in m.args:
                if an in args:
                    _xml_value(root, tns, an, sp, args[an], xsi_nil)
        finally:
            _XSI_TYPE[0] = False
        if in_prot == 'xml':
            doc = root
        else:
            ens = NS_SOAP11 if in_prot == 'soap11' else NS_SOAP12
            doc = etree.Element('{%s}Envelope' % ens, nsmap={'senv': ens})
            body = etree.SubElement(doc, '{%s}Body' % ens)
            body.append(root)
        body = etree.tostring(doc, xml_declaration=True, encoding='UTF-8')
        return Request('POST', '/', '', CONTENT_TYPES[in_prot], body, label)
    if kind == 'dict':
        if in_prot == 'msgpackrpc':
            params = [_dict_value(sp, args.get(an), False, True)
                                                         for an, sp in m.args]
            body = msgpack.packb([0, 1, wire, params], use_bin_type=True)
            return Request('POST', '/', '', CONTENT_TYPES[in_prot], body,
                                                                        label)
        raw = in_prot == 'msgpack'
        d = dict((an, _dict_value(sp, args[an], wrappers, raw))
                                       for an, sp in m.args if an in args)
        if in_prot == 'json':
            body = json.dumps({wire: d}, sort_keys=True).encode('utf8')
        elif in_prot == 'yaml':
            body = yaml.safe_dump({wire: d}, allow_unicode=True,
                                                 encoding='utf8')
        else:
            # MessagePackDocument looks the wrapper key up as bytes
            body = msgpack.packb({wire.encode('utf8'): d}, use_bin_type=True)
        return Request('POST', '/', '', CONTENT_TYPES[in_prot], body, label)
    if kind == 'flat':
        pairs = []
        for an, sp in m.args:
            if an in args:
                _flat_value(pairs, an, sp, args[an])
        # (most clients send array brackets in keys unescaped)
        qs = '&'.join('%s=%s' % (_quote(k).replace('%5B', '[')
                      .replace('%5D', ']'), _quote(v)) for k, v in pairs)
        return Request('GET', '/' + wire, qs, None, b'', label)
    raise ValueError(in_prot)


def wsdl_request(host=None):
    r = Request('GET', '/', 'wsdl', None, b'', ('?wsdl', 'wsdl'))
    if host is not None:
        # the URL in the document comes from the client's Host header
        r.env = {'HTTP_HOST': host}
    return r

Secret = VerifSecretError
SecretKeyError = VerifSecretKeyError
