"""One integer decides everything: named PRNG sub-streams derived by hashing."""

import hashlib
import random


def derive(*parts):
    h = hashlib.sha256(':'.join(str(p) for p in parts).encode()).digest()
    return int.from_bytes(h[:8], 'big')


class Streams(object):
    """`Streams(seed)['schedule']` is a random.Random that depends only on
    (seed, 'schedule'); a new draw in one stream never shifts another."""

    def __init__(self, seed):
        self.seed = seed
        self._s = {}

    def __getitem__(self, name):
        r = self._s.get(name)
        if r is None:
            r = self._s[name] = random.Random(derive(self.seed, name))
        return r


def run_seed(prop, verif_seed, index):
    return derive(prop, verif_seed, index) & 0xffffffffffff
