"""Request classes and injectable exception kinds shared by the checks."""

import random

from .universe import (Universe, encode_request, wsdl_request, Request,
                       Secret, SecretKeyError, PROTOCOLS, XML_FAMILY)

from spyne import Fault
from spyne.error import (RequestTooLongError, ResourceNotFoundError,
                         RequestNotAllowed, InvalidCredentialsError,
                         RespawnError)

SECRET_PREFIX = 'S3CR3T'


def secret_token(seed):
    return '%s%08xZZ' % (SECRET_PREFIX, seed & 0xffffffff)


class CustomFault(Fault):
    """A generated Fault subclass (no CODE: not registered globally)."""


class SubTooLong(RequestTooLongError):
    pass


class SubNotFound(ResourceNotFoundError):
    pass


class SubNotAllowed(RequestNotAllowed):
    pass


class SubInvalidCreds(InvalidCredentialsError):
    pass


# ... and subclasses that refine the code with a sub-code of their own
class CodedNotFound(ResourceNotFoundError):
    CODE = 'Client.ResourceNotFound.NoSuchUser'


class CodedInvalidCreds(InvalidCredentialsError):
    CODE = 'Client.InvalidCredentialsError.Expired'


class CodedTooLong(RequestTooLongError):
    CODE = 'Client.RequestTooLong.Upload'


_MSGS = [u'plain message', u'h\xe9llo w\xf6rld', u'中文 <&> "q"',
         u'semi;colon: and/slash', u'x', u'non-BMP \U0001F600 \U00010348 end',
         u'tab\tand newline\nkept', u']]> not cdata', u'a' * 300,
         u'ctl \x01 and \x0b chars',
         # blanks at either end are part of the message
         u'  leading blanks', u'trailing blank and newline \n', u'   ']
_DETAILS = [None, {'k': 'v'}, {'outer': {'inner': 'deep'}},
            {'a': '1', 'b': '2'}, {'n': {'m': {'o': 'p'}}},
            # falsy leaves are data too
            {'zero': '0', 'empty': '', 'sub': {'f': '0'}},
            {'count': 0, 'flag': False, 'ok': True, 'n': 7},
            {'deep': {'deeper': {'deepest': {'leaf': 'x'}}}, 'side': 'y'}]
_CLIENT_CODES = ['Client', 'Client.Custom', 'Client.A.B.C', 'Client.Quota']
_SERVER_CODES = ['Server', 'Server.Db', 'Server.X.Y']
_OPEN_CODES = ['Weird', 'Custom.Code', 'client.lower', 'Clientele.X',
               'ClientSide', 'Serverless.Y', 'Client-side']


class ExcSpec(object):
    """An exception to inject, described by plain data so it can live in a
    replay file:  {'kind':..., 'code':..., 'msg':..., 'detail':..., 'secret':...}"""

    KINDS_FAULT = ['fault_client', 'fault_server', 'fault_open', 'fault_sub',
                   'too_long', 'not_found', 'not_allowed', 'invalid_creds',
                   # subclasses of the dedicated errors keep their status
                   'sub_too_long', 'sub_not_found', 'sub_not_allowed',
                   'sub_invalid_creds', 'respawn',
                   'coded_not_found', 'coded_invalid_creds', 'coded_too_long']
    # a Fault whose payload the output protocol may be unable to represent:
    # only "no crash, a well-formed fault, no leak" is asserted for these
    KINDS_AWKWARD = ['fault_awkward']
    KINDS_NONFAULT = ['key_error', 'os_error', 'zero_div', 'custom',
                      'type_error']
    KINDS = KINDS_FAULT + KINDS_NONFAULT + KINDS_AWKWARD
    AWKWARD = ['key-space', 'key-int', 'leaf-ctl', 'list', 'list-dicts',
               'bytes-msg', 'set', 'bigint', 'none-leaf', 'obj-leaf',
               'detail-str', 'detail-list', 'key-empty', 'msg-ctl-only',
               'deep']

    @staticmethod
    def draw(rng, kind, seed):
        d = {'kind': kind, 'secret': secret_token(seed)}
        if kind == 'fault_client':
            d['code'] = rng.choice(_CLIENT_CODES)
        elif kind == 'fault_server':
            d['code'] = rng.choice(_SERVER_CODES)
        elif kind == 'fault_open':
            d['code'] = rng.choice(_OPEN_CODES)
        elif kind == 'fault_sub':
            d['code'] = rng.choice(_CLIENT_CODES + _SERVER_CODES)
        if kind == 'fault_awkward':
            d['code'] = rng.choice(_CLIENT_CODES + _SERVER_CODES)
            d['variant'] = rng.choice(ExcSpec.AWKWARD)
            d['msg'] = u'awkward'
        if kind in ('fault_client', 'fault_server', 'fault_open', 'fault_sub'):
            d['msg'] = rng.choice(_MSGS)
            d['detail'] = rng.choice(_DETAILS)
        elif kind in ('too_long', 'not_allowed', 'invalid_creds',
                      'sub_too_long', 'sub_not_allowed', 'sub_invalid_creds',
                      'coded_invalid_creds', 'coded_too_long'):
            d['msg'] = rng.choice(_MSGS)
        elif kind in ('not_found', 'sub_not_found', 'respawn',
                      'coded_not_found'):
            d['msg'] = rng.choice([u'thing', u'res/1'])
        return d

    @staticmethod
    def is_fault(d):
        return d['kind'] in ExcSpec.KINDS_FAULT or \
                                        d['kind'] in ExcSpec.KINDS_AWKWARD

    @staticmethod
    def is_awkward(d):
        return d['kind'] in ExcSpec.KINDS_AWKWARD

    @staticmethod
    def awkward_payload(variant):
        deep = cur = {}
        for i in range(40):
            cur['n%d' % i] = {}
            cur = cur['n%d' % i]
        cur['leaf'] = 'x'
        return {
            'key-space': dict(detail={'a b': 'x'}),
            'key-int': dict(detail={1: 'x'}),
            'key-empty': dict(detail={'': 'x'}),
            'leaf-ctl': dict(detail={'a': u'x\x01y'}),
            'list': dict(detail={'a': ['x', 'y']}),
            'list-dicts': dict(detail={'a': [{'b': '1'}, {'b': '2'}]}),
            'bytes-msg': dict(msg=b'bytes msg'),
            'msg-ctl-only': dict(msg=u'\x00\x01'),
            'set': dict(detail={'a': set([1, 2])}),
            'bigint': dict(detail={'a': 2 ** 70}),
            'none-leaf': dict(detail={'a': None}),
            'obj-leaf': dict(detail={'a': object()}),
            'detail-str': dict(detail='just a string'),
            'detail-list': dict(detail=['x']),
            'deep': dict(detail=deep),
        }[variant]

    @staticmethod
    def make(d):
        k = d['kind']
        if k == 'fault_awkward':
            pl = ExcSpec.awkward_payload(d['variant'])
            return Fault(d['code'], pl.get('msg', d['msg']),
                                                   detail=pl.get('detail'))
        if k in ('fault_client', 'fault_server', 'fault_open'):
            return Fault(d['code'], d['msg'], detail=d.get('detail'))
        if k == 'fault_sub':
            return CustomFault(d['code'], d['msg'], detail=d.get('detail'))
        if k == 'too_long':
            return RequestTooLongError(d['msg'])
        if k == 'not_found':
            return ResourceNotFoundError(d['msg'])
        if k == 'not_allowed':
            return RequestNotAllowed(d['msg'])
        if k == 'invalid_creds':
            return InvalidCredentialsError(d['msg'])
        if k == 'sub_too_long':
            return SubTooLong(d['msg'])
        if k == 'sub_not_found':
            return SubNotFound(d['msg'])
        if k == 'sub_not_allowed':
            return SubNotAllowed(d['msg'])
        if k == 'sub_invalid_creds':
            return SubInvalidCreds(d['msg'])
        if k == 'respawn':
            return RespawnError(d['msg'])
        if k == 'coded_not_found':
            return CodedNotFound(d['msg'])
        if k == 'coded_invalid_creds':
            return CodedInvalidCreds(d['msg'])
        if k == 'coded_too_long':
            return CodedTooLong(d['msg'])
        s = d['secret']
        if k == 'key_error':
            return SecretKeyError(s)
        if k == 'os_error':
            return OSError(2, 'No such file or directory', '/etc/%s' % s)
        if k == 'zero_div':
            return ZeroDivisionError('division by %s' % s)
        if k == 'custom':
            return Secret('password=%s' % s)
        if k == 'type_error':
            return TypeError("unsupported operand %s" % s)
        raise ValueError(k)

    @staticmethod
    def expected(d):
        """(code, string, detail) the client must see for this exception."""
        k = d['kind']
        if k == 'fault_awkward':
            return (d['code'], d['msg'], None)
        if k in ('fault_client', 'fault_server', 'fault_open', 'fault_sub'):
            return (d['code'], d['msg'], d.get('detail'))
        if k in ('too_long', 'sub_too_long'):
            return ('Client.RequestTooLong', d['msg'], None)
        if k in ('not_found', 'sub_not_found', 'respawn'):
            return ('Client.ResourceNotFound',
                    "Requested resource %r not found" % (d['msg'],), None)
        if k in ('not_allowed', 'sub_not_allowed'):
            return ('Client.RequestNotAllowed', d['msg'], None)
        if k in ('invalid_creds', 'sub_invalid_creds'):
            return ('Client.InvalidCredentialsError', d['msg'], None)
        if k == 'coded_not_found':
            return (CodedNotFound.CODE,
                    "Requested resource %r not found" % (d['msg'],), None)
        if k == 'coded_invalid_creds':
            return (CodedInvalidCreds.CODE, d['msg'], None)
        if k == 'coded_too_long':
            return (CodedTooLong.CODE, d['msg'], None)
        return ('Server', 'Internal Error', None)

    @staticmethod
    def expected_http(d, out_prot):
        """Documented HTTP status for the fault, per the property."""
        if out_prot in ('soap11', 'soap12'):
            return '500'
        k = d['kind']
        if k in ('too_long', 'sub_too_long', 'coded_too_long'):
            return '413'
        if k in ('not_found', 'sub_not_found', 'respawn', 'coded_not_found'):
            return '404'
        if k in ('not_allowed', 'sub_not_allowed'):
            return '405'
        if k in ('invalid_creds', 'sub_invalid_creds', 'coded_invalid_creds'):
            return '401'
        code = ExcSpec.expected(d)[0]
        if code == 'Client' or code.startswith('Client.'):
            return '400'
        return '500'


# ---------------------------------------------------------------------------
# request classes

OK_METHODS = ['prims', 'echo', 'inners', 'multi', 'noargs', 'nothing', 'sub',
              'strict', 'pa', 'poly', 'item1', 'item2', 'total']


def build_request(uni, in_prot, rclass, rng):
    """rclass (a JSON-able list) -> Request.  Also applies the user-code
    behaviour the class needs to uni.ctl.  Classes:
        ['ok', method] ['gen', n] ['genraise', k, excspec] ['fault', excspec]
        ['unknown'] ['malformed', how] ['invalid'] ['wsdl'] ['badreturn']
    """
    kind = rclass[0]
    ctl = uni.ctl
    if kind == 'ok':
        m = rclass[1]
        return encode_request(uni, in_prot, m, uni.gen_args(rng, m))
    if kind == 'gen':
        ctl.gen_len = rclass[1]
        return encode_request(uni, in_prot, 'gen', {'n': rclass[1],
                                                       'tag': u'g'})
    if kind == 'genraise':
        k, spec = rclass[1], rclass[2]
        n = max(k + 1, 2) if k != 'end' else 2
        ctl.gen_len = n
        ctl.inject['gen:%s' % k] = lambda: ExcSpec.make(spec)
        return encode_request(uni, in_prot, 'gen', {'n': n, 'tag': u'g'})
    if kind == 'fault':
        spec = rclass[1]
        ctl.inject['fn'] = lambda: ExcSpec.make(spec)
        return encode_request(uni, in_prot, 'fail', {'a': 3})
    if kind == 'badreturn':
        ctl.bad_return = True
        if len(rclass) > 1 and rclass[1] == 'multi':
            # a method declared with two return values hands back None
            r = encode_request(uni, in_prot, 'multi', {'a': 3})
            r.label = ('multi', 'badreturn')
            return r
        return encode_request(uni, in_prot, 'bad', {'a': 3})
    if kind == 'unknown':
        r = encode_request(uni, in_prot, 'noargs', {},
                                               method_name='no_such_method')
        r.label = ('no_such_method', 'unknown')
        return r
    if kind == 'invalid':
        # a value outside int_rng's declared range / wrong pattern, on a
        # method that takes that very type
        return _invalid_request(uni, in_prot)
    if kind == 'malformed':
        how = rclass[1]
        base = encode_request(uni, in_prot, 'multi', {'a': 3})
        if PROTOCOLS[in_prot][1] == 'flat':
            # the only way to malform a GET: a broken query string value
            base.qs = 'a=%ZZnot-an-int&=&&a'
            base.label = ('multi', 'malformed')
            return base
        if how == 'truncate':
            body = base.body[:max(1, len(base.body) // 2)]
        elif how == 'garbage':
            body = bytes(bytearray(rng.randint(0, 255) for _ in range(24)))
        else:
            body = b''
        r = base.with_body(body)
        r.label = ('multi', 'malformed')
        return r
    if kind == 'wsdl':
        if len(rclass) > 1 and rclass[1] == 'badhost':
            # a Host header lxml refuses as an attribute value: the build
            # fails for this requester
            r = wsdl_request(host='sim\x01.invalid')
            r.label = ('?wsdl', 'wsdl-badhost')
            return r
        return wsdl_request()
    if kind == 'envelope':
        return _bad_envelope(uni, in_prot, rclass[1])
    if kind == 'verb':
        # a valid document sent with the wrong HTTP verb
        r = encode_request(uni, in_prot, 'multi', {'a': 3})
        if r.verb == 'GET':
            # HttpRpc: POST/PUT/PATCH bodies need werkzeug (not installed
            # here), so only body-less verbs are used
            r.verb = {'GET': 'DELETE', 'PUT': 'OPTIONS'}.get(rclass[1],
                                                             rclass[1])
        else:
            r.verb = rclass[1]
        r.label = ('multi', 'verb')
        return r
    if kind == 'multiref':
        # SOAP section-5 multi-reference encoding: a complex argument is sent
        # as <arg href="#idN"/> plus an independent element carrying the id
        m = rclass[1]
        base = encode_request(uni, in_prot, m, uni.gen_args(rng, m))
        if in_prot not in ('soap11', 'soap12'):
            return base
        from lxml import etree
        try:
            root = etree.fromstring(base.body)
        except Exception:
            return base
        body = [c for c in root if isinstance(c.tag, str) and
                                    etree.QName(c).localname == 'Body']
        if not body or not len(body[0]):
            return base
        meth = body[0][0]
        n = 0
        for arg in list(meth):
            if len(arg):
                n += 1
                ref = etree.SubElement(body[0], 'multiRef')
                ref.set('id', 'id%d' % n)
                for ch in list(arg):
                    ref.append(ch)
                arg.set('href', '#id%d' % n)
        r = base.with_body(etree.tostring(root))
        r.label = (m, 'multiref')
        return r
    if kind == 'multipart':
        # SOAP with attachments: the same valid document inside a
        # multipart/related body, well-formed or broken in one way
        base = encode_request(uni, in_prot, 'multi', {'a': 3})
        if base.verb == 'GET':
            base.label = ('multi', 'multipart')
            return base
        how = rclass[1]
        bnd = b'SIMBND'

        def mp(parts):
            out = b''
            for hdrs, payload in parts:
                out += b'--' + bnd + b'\r\n' + hdrs + b'\r\n\r\n' + \
                                                         payload + b'\r\n'
            return out + b'--' + bnd + b'--\r\n'
        root = (b'Content-Type: text/xml\r\nContent-ID: <root>', base.body)
        att = (b'Content-Type: application/octet-stream\r\n'
               b'Content-ID: <att1>', b'abc')
        ctype = 'multipart/related; boundary=SIMBND; start="<root>"'
        if how == 'ok':
            body = mp([root, att])
        elif how == 'root_only':
            body = mp([root])
        elif how == 'root_only_charset':
            body = mp([root])
            ctype += '; charset=utf-8'
        elif how == 'no_cid':
            body = mp([root, (b'Content-Type: application/octet-stream',
                              b'abc')])
        elif how == 'attach_first':
            body = mp([att, root])
        elif how == 'bad_charset':
            body = mp([root])
            ctype += '; charset=no-such-charset'
        elif how == 'nonascii_boundary':
            body = base.body
            ctype = 'multipart/related; boundary="\xe9"'
        elif how == 'no_boundary':
            body = mp([root])
            ctype = 'multipart/related'
        elif how == 'no_root':
            body = mp([att])
        elif how == 'truncated':
            body = mp([root, att])
            body = body[:len(body) // 2]
        else:
            body = b''
        r = base.with_body(body)
        r.ctype = ctype
        r.label = ('multi', 'multipart')
        return r
    if kind == 'charset':
        # a valid document under a Content-Type that lies about the charset
        r = encode_request(uni, in_prot, 'multi', {'a': 3})
        if r.ctype is not None:
            base = r.ctype.split(';')[0]
            r.ctype = '%s; charset=%s' % (base, rclass[1])
        r.label = ('multi', 'charset')
        return r
    raise ValueError(rclass)


def _bad_envelope(uni, in_prot, variant):
    """Well-formed document, wrong envelope."""
    import json as _json, yaml as _yaml, msgpack as _msgpack
    from .universe import NS_SOAP11, NS_SOAP12
    base = encode_request(uni, in_prot, 'multi', {'a': 3})
    base.label = ('multi', 'envelope')
    fam = PROTOCOLS[in_prot][1]
    if in_prot in ('soap11', 'soap12'):
        ens = NS_SOAP11 if in_prot == 'soap11' else NS_SOAP12
        if variant % 2 == 0:
            body = ('<e:Envelope xmlns:e="%s"><e:Header/></e:Envelope>'
                                                       % ens).encode()
        else:
            body = ('<e:NotAnEnvelope xmlns:e="%s"><e:Body><t:multi xmlns:t='
                    '"%s"><t:a>3</t:a></t:multi></e:Body></e:NotAnEnvelope>'
                                               % (ens, uni.tns)).encode()
        return base.with_body(body)._relabel(base.label)
    if in_prot == 'msgpackrpc':
        doc = [0, 1, 'multi'] if variant % 2 == 0 else [7, 1, 'multi', [3]]
        return base.with_body(_msgpack.packb(doc))._relabel(base.label)
    if fam == 'dict':
        doc = {'multi': {'a': 3}, 'noargs': {}} if variant % 2 == 0 \
                                                    else [{'multi': {'a': 3}}]
        if in_prot == 'json':
            body = _json.dumps(doc).encode()
        elif in_prot == 'yaml':
            body = _yaml.safe_dump(doc, encoding='utf8')
        else:
            if isinstance(doc, dict):
                doc = dict((k.encode(), v) for k, v in doc.items())
            body = _msgpack.packb(doc, use_bin_type=True)
        return base.with_body(body)._relabel(base.label)
    # xml / httprpc have no envelope: closest thing is an unknown root
    r = encode_request(uni, in_prot, 'noargs', {}, method_name='no_such_method')
    r.label = ('no_such_method', 'envelope')
    return r


def _invalid_request(uni, in_prot):
    """`strict(a: Integer(ge=0, le=1000), s: Unicode(pattern))` called with a
    value outside the range.  The universe always carries this method."""
    r = encode_request(uni, in_prot, 'strict', {'a': 5000, 's': u'abc'})
    r.label = ('strict', 'invalid')
    return r
